/-!
# Model of page-frame maps (`src/kdumpfile/pfn.c`, `bitmap.c`) — C07

Bitmaps are lists of bytes (`Nat < 256`).  The bit scans are modelled with their
first-byte arithmetic exactly as written in C (integer promotion, the signed
`char` shift of the LSB0 variant, the plain shift of the MSB0 variant); the
three-phase unaligned/word/tail loop over the remaining bytes is modelled as
one byte-wise scan (the word phase computes the same function; that is checked
by the correspondence stream at all four buffer alignments).
-/
namespace Kdf.Model.Pfn

abbrev Bitmap := List Nat

def byteAt (bm : Bitmap) (i : Nat) : Nat := bm.getD i 0

/-- count trailing zeros of a non-zero value (`ctz`) -/
def ctz : Nat → Nat → Nat
  | 0, _ => 0
  | fuel+1, v => if v % 2 = 1 then 0 else 1 + ctz fuel (v / 2)

/-- leading zeros of a byte (`clz((uint32_t)v << 24)`) -/
def clz8 (v : Nat) : Nat :=
  if v ≥ 128 then 0 else if v ≥ 64 then 1 else if v ≥ 32 then 2 else if v ≥ 16 then 3
  else if v ≥ 8 then 4 else if v ≥ 4 then 5 else if v ≥ 2 then 6 else if v ≥ 1 then 7 else 8

/-- scan bytes `j, j+1, … < size` for the first byte on which `hit` is some offset -/
def scanBytes (bm : Bitmap) (size : Nat) (hit : Nat → Option Nat) : Nat → Nat → Nat
  | 0, j => j * 8
  | fuel+1, j =>
    if j ≥ size then size * 8
    else match hit (byteAt bm j) with
      | some off => j * 8 + off
      | none => scanBytes bm size hit fuel (j+1)

def skipClearLsb0 (bm : Bitmap) (size pfn : Nat) : Nat :=
  if pfn / 8 ≥ size then pfn
  else
    let val := byteAt bm (pfn / 8) / 2^(pfn % 8)
    if val ≠ 0 then pfn + ctz 8 val
    else scanBytes bm size (fun b => if b ≠ 0 then some (ctz 8 b) else none) size (pfn / 8 + 1)

def skipClearMsb0 (bm : Bitmap) (size pfn : Nat) : Nat :=
  if pfn / 8 ≥ size then pfn
  else
    let val := byteAt bm (pfn / 8) * 2^(pfn % 8) % 256
    if val ≠ 0 then pfn + clz8 val
    else scanBytes bm size (fun b => if b ≠ 0 then some (clz8 b) else none) size (pfn / 8 + 1)

/-- `~((signed char)*bp >> k)` truncated to `unsigned char` -/
def notSarByte (b k : Nat) : Nat :=
  -- arithmetic shift of the sign-extended byte, complemented, low 8 bits
  let shifted := if b ≥ 128 then (b / 2^k + (256 - 256 / 2^k)) % 256 else b / 2^k
  255 - shifted

def skipSetLsb0 (bm : Bitmap) (size pfn : Nat) : Nat :=
  if pfn / 8 ≥ size then pfn
  else
    let val := notSarByte (byteAt bm (pfn / 8)) (pfn % 8)
    if val ≠ 0 then pfn + ctz 8 val
    else scanBytes bm size (fun b => if b ≠ 255 then some (ctz 8 (255 - b)) else none) size (pfn / 8 + 1)

/-- first-byte value of `skip_set_msb0`: `~((*bp << k) | ((1U << k) - 1))`
truncated to `unsigned char` (the `k` shifted-in low bits are filled with ones
before the complement, so they are zero afterwards). -/
def notShlByte (b k : Nat) : Nat :=
  (255 - b * 2^k % 256) / 2^k * 2^k

def skipSetMsb0 (bm : Bitmap) (size pfn : Nat) : Nat :=
  if pfn / 8 ≥ size then pfn
  else
    let val := notShlByte (byteAt bm (pfn / 8)) (pfn % 8)
    if val ≠ 0 then pfn + clz8 val
    else scanBytes bm size (fun b => if b ≠ 255 then some (clz8 (255 - b)) else none) size (pfn / 8 + 1)

structure Region where
  pfn : Nat
  cnt : Nat
  pos : Nat
  deriving DecidableEq, Repr, Inhabited

/-- `pfn_regions_from_bitmap` (allocation failure not modelled here) -/
def regionsFromBitmap (bm : Bitmap) (isMsb0 : Bool) (startPfn endPfn fileoff elemsz : Nat) : List Region :=
  let size := (endPfn + 7) / 8
  let rec go : Nat → Nat → Nat → List Region → List Region
    | 0, _, _, acc => acc
    | fuel+1, pfn, pos, acc =>
      if pfn < endPfn then
        let r0 := if isMsb0 then skipClearMsb0 bm size pfn else skipClearLsb0 bm size pfn
        let p0 := if isMsb0 then skipSetMsb0 bm size r0 else skipSetLsb0 bm size r0
        let r := min r0 endPfn
        let p := min p0 endPfn
        let cnt := p - r
        if cnt = 0 then go fuel p pos acc
        else go fuel p (pos + cnt * elemsz) (acc ++ [⟨r, cnt, pos⟩])
      else acc
  go (endPfn + 1) startPfn fileoff []

/-- `find_pfn_region`: binary search; returns the region containing `pfn`, else
the first region above it, else none -/
def findRegion (rs : List Region) (pfn : Nat) : Option Region :=
  let rec go : Nat → Nat → Nat → Option Region
    | 0, _, right => rs[right]?
    | fuel+1, left, right =>
      if left = right then rs[right]?
      else
        let mid := (left + right) / 2
        match rs[mid]? with
        | none => none
        | some r =>
          if pfn < r.pfn then go fuel left mid
          else if pfn ≥ r.pfn + r.cnt then go fuel (mid + 1) right
          else some r
  go (rs.length + 1) 0 rs.length

structure FileMap where
  regions : List Region
  startPfn : Nat
  endPfn : Nat
  deriving DecidableEq, Repr, Inhabited

/-- `find_pfn_file_map` -/
def findFileMap (maps : List FileMap) (pfn : Nat) : Option (Nat × FileMap) :=
  let rec go : List FileMap → Nat → Option (Nat × FileMap)
    | [], _ => none
    | m :: ms, i => if pfn < m.endPfn then some (i, m) else go ms (i+1)
  go maps 0

/-- `set_bits` on a byte list; `none` = write outside the buffer -/
def setBits (buf : Bitmap) (start end_ : Nat) : Option Bitmap :=
  let sb := start / 8; let eb := end_ / 8
  let smask := 2^(start % 8) - 1            -- (1 << (start & 7)) - 1
  let emask := 2^(end_ % 8 + 1) - 1         -- (1 << ((end & 7) + 1)) - 1  (may be 255)
  if sb < eb then
    if eb < buf.length then
      some (buf.mapIdx fun i b =>
        if i = sb then b ||| (255 - smask)
        else if sb < i ∧ i < eb then 255
        else if i = eb then b ||| (emask % 256)
        else b)
    else none
  else if sb < buf.length then
    -- start byte > end byte is possible when start > end: C then ORs `~startmask & endmask`
    -- into buf[startbyte] only
    some (buf.modify sb fun b => b ||| ((255 - smask) &&& (emask % 256)))
  else none

/-- `clear_bits` -/
def clearBits (buf : Bitmap) (start end_ : Nat) : Option Bitmap :=
  let sb := start / 8; let eb := end_ / 8
  let smask := 2^(start % 8) - 1
  let emask := (2^(end_ % 8 + 1) - 1) % 256
  if sb < eb then
    if eb < buf.length then
      some (buf.mapIdx fun i b =>
        if i = sb then b &&& smask
        else if sb < i ∧ i < eb then 0
        else if i = eb then b &&& (255 - emask)
        else b)
    else none
  else if sb < buf.length then
    some (buf.modify sb fun b => b &&& (smask ||| (255 - emask)))
  else none

end Kdf.Model.Pfn

namespace Kdf.Model.Pfn

/-- regions of the maps from index `i` on, flattened, with the first map searched from `pfn` -/
def regionAtOrAfter (maps : List FileMap) (pfn : Nat) : Option Region :=
  match findFileMap maps pfn with
  | none => none
  | some (i, _) => (maps.drop i).findSome? fun m => findRegion m.regions pfn

/-- `find_mapped_pfn`: least mapped frame ≥ `pfn` -/
def findMapped (maps : List FileMap) (pfn : Nat) : Option Nat :=
  match regionAtOrAfter maps pfn with
  | none => none
  | some r => some (max r.pfn pfn)

/-- `find_unmapped_pfn`: least unmapped frame ≥ `pfn` -/
def findUnmapped (maps : List FileMap) : Nat → Nat → Nat
  | 0, pfn => pfn
  | fuel+1, pfn =>
    match findFileMap maps pfn with
    | none => pfn
    | some (_, m) =>
      if m.startPfn > pfn then pfn
      else match findRegion m.regions pfn with
        | none => pfn
        | some r => if r.pfn > pfn then pfn else findUnmapped maps fuel (r.pfn + r.cnt)

/-- `get_pfn_map_bits`: `none` = a write outside the caller's buffer -/
def getMapBits (maps : List FileMap) (first last : Nat) : Option Bitmap :=
  let n := (last - first) / 8 + 1
  let zero : Bitmap := List.replicate n 0
  match findFileMap maps first with
  | none => some zero
  | some (i, _) =>
    let rs := ((maps.drop i).map (·.regions)).flatten
    rs.foldl (fun acc r =>
      match acc with
      | none => none
      | some buf =>
        if r.pfn + r.cnt ≤ first ∨ r.pfn > last ∨ r.cnt = 0 then some buf
        else setBits buf (max r.pfn first - first) (min (r.pfn + r.cnt - 1) last - first)) (some zero)

/-! ### ELF segments (`elf_get_bits`, `elf_find_set`, `elf_find_clear`) -/

structure Seg where
  phys : Nat
  size : Nat          -- filesz or memsz, whichever the query is about
  deriving DecidableEq, Repr, Inhabited

/-- `find_closest_*_load(edp, paddr, dist)` over segments sorted by `phys`
(without the `last_load` shortcut, which C04 shows to be irrelevant): index of
the first segment with non-zero size that ends at or after `paddr`, unless it
starts `dist` or more bytes above `paddr`. -/
def findClosest (segs : List Seg) (paddr dist : Nat) : Option Nat :=
  let rec go : List Seg → Nat → Option Nat
    | [], _ => none
    | s :: ss, i =>
      if s.size ≠ 0 ∧ paddr ≤ s.phys + s.size - 1 then
        if paddr < s.phys ∧ s.phys - paddr ≥ dist then none else some i
      else go ss (i+1)
  go segs 0

/-- `elf_get_bits` -/
def elfGetBits (segs : List Seg) (shift : Nat) (first last : Nat) : Option Bitmap :=
  let n := (last - first) / 8 + 1
  let zero : Bitmap := List.replicate n 0
  match findClosest segs (first * 2^shift) ((last - first + 1) * 2^shift) with
  | none => some zero
  | some i =>
    (segs.drop i).foldl (fun acc s =>
      match acc with
      | none => none
      | some buf =>
        if s.size = 0 then some buf
        else
          let lo := s.phys / 2^shift
          let hi := (s.phys + s.size - 1) / 2^shift
          if hi < first ∨ lo > last then some buf
          else setBits buf (max lo first - first) (min hi last - first)) (some zero)

/-- `elf_find_set`: least frame ≥ idx covered by a segment -/
def elfFindSet (segs : List Seg) (shift idx : Nat) : Option Nat :=
  match findClosest segs (idx * 2^shift) (2^64 - 1) with
  | none => none
  | some i => match segs[i]? with
    | none => none
    | some s => some (max (s.phys / 2^shift) idx)

end Kdf.Model.Pfn
