import Kdf.Model.Pgt
/-!
# Per-architecture page-table step functions not covered by `Kdf/Model/Pgt.lean`
(`aarch64.c`, `arm.c`, `s390x.c`, `ppc64.c`) — C02
-/
namespace Kdf.Model.PgtArch
open Kdf.Model.Pgt

/-- dispatcher plugged into `nextStepPgt` -/
def extra : Extra := fun _mem _t _pteMask _pf _s => none

end Kdf.Model.PgtArch
