import Kdf.Model.Pgt
import Kdf.Model.PgtAarch64
import Kdf.Model.PgtArm
import Kdf.Model.PgtS390x
import Kdf.Model.PgtPpc64
/-!
# Per-architecture page-table step functions not covered by `Kdf/Model/Pgt.lean`
(`aarch64.c`, `arm.c`, `s390x.c`, `ppc64.c`) — C02

Each handler lives in its own file (`PgtAarch64`, `PgtArm`, `PgtS390x`, `PgtPpc64`);
`extra` is the part of the `switch` in `next_step_pgt` (step.c) that dispatches to them.
-/
namespace Kdf.Model.PgtArch
open Kdf.Model.Pgt

/-- dispatcher plugged into `nextStepPgt` -/
def extra : Extra := fun mem t pteMask pf s =>
  match pf.fmt with
  | .aarch64 => some (Kdf.Model.PgtAarch64.pgtAarch64 mem t pteMask pf s)           -- pgt_aarch64
  | .aarch64Lpa => some (Kdf.Model.PgtAarch64.pgtAarch64Lpa mem t pteMask pf s)     -- pgt_aarch64_lpa
  | .aarch64Lpa2 => some (Kdf.Model.PgtAarch64.pgtAarch64Lpa2 mem t pteMask pf s)   -- pgt_aarch64_lpa2
  | .arm => some (Kdf.Model.PgtArm.pgtArm mem t pteMask pf s)                       -- pgt_arm
  | .s390x => some (Kdf.Model.PgtS390x.pgtS390x mem t pteMask pf s)                 -- pgt_s390x
  | .ppc64LinuxRpn30 =>
    some (Kdf.Model.PgtPpc64.pgtPpc64LinuxRpn30 mem t pteMask pf s)                 -- pgt_ppc64_linux_rpn30
  | _ => none

end Kdf.Model.PgtArch
