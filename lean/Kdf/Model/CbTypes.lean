/-! Types shared by the generated callback facts and the callback model (C17). -/
namespace Kdf.Model.Cb

/-- The seven hooks of `addrxlat_cb_t`. -/
inductive Hook
  | getPage | readCaps | regValue | symValue | symSizeof | symOffsetof | numValue
  deriving DecidableEq, Repr, Inhabited

def Hook.all : List Hook :=
  [.getPage, .readCaps, .regValue, .symValue, .symSizeof, .symOffsetof, .numValue]

/-- Which callback record a forwarder passes on: `cb->next`, `cb` itself, or
something the extractor did not recognise. -/
inductive Fwd | next | self | other
  deriving DecidableEq, Repr, Inhabited

end Kdf.Model.Cb
