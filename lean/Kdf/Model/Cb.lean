import Kdf.Model.CbTypes
import Kdf.Gen.Cb
/-!
# Model of the callback chain of an address-translation context (C17)

Transcribes `addrxlat_ctx_add_cb`, `addrxlat_ctx_del_cb`, `addrxlat_ctx_get_cb`
and the seven `next_*_cb` forwarders of `src/addrxlat/ctx.c`.

A context is a stack of layers on top of the built-in default record.  Each
layer has private data and, per hook, either a user implementation (identified
by a number) or the forwarder that `add_cb` installed.  What a forwarder does —
which slot of `cb->next` it calls and which record it passes — is *not* written
here: it comes from `Kdf.Gen.cbForward`, regenerated from the C source on every
run.

An implementation's observable behaviour is a function of (its identity, the
record it was called with), so the result of an invocation is exactly that
pair: `called impl priv depth` where `priv`/`depth` identify the record.
-/
namespace Kdf.Model.Cb

structure Layer where
  priv : Nat
  impl : Hook → Option Nat
  deriving Inhabited

inductive Res
  | called (impl : Nat) (priv : Nat) (depth : Nat)   -- user implementation saw this record
  | base (h : Hook) (depth : Nat)                    -- built-in default callback, with the record it saw
  | diverge                                          -- unbounded mutual recursion (fuel exhausted)
  | crash                                            -- call through a slot the extractor could not resolve
  deriving DecidableEq, Repr, Inhabited

/-- Call the function stored in slot `h` of the top record of `owner`
(`owner = []` is the built-in default record), passing the top record of `rec`
as `cb`.  This is one C-level indirect call `owner->h(rec, …)`. -/
def callFn : Nat → List Layer → Hook → List Layer → Res
  | 0, _, _, _ => .diverge
  | fuel+1, owner, h, rec =>
    match owner with
    | [] => .base h rec.length
    | L :: _ =>
      match L.impl h with
      | some f =>
        match rec with
        | [] => .called f 0 0           -- default record: priv is the context itself
        | R :: _ => .called f R.priv rec.length
      | none =>
        -- the forwarder installed by add_cb: `return cb->next->slot(cb->next | cb, …)`
        match rec with
        | [] => .crash                   -- default record has no next
        | _ :: recNext =>
          match Kdf.Gen.cbForward h with
          | (some slot, .next) => callFn fuel recNext slot recNext
          | (some slot, .self) => callFn fuel recNext slot rec
          | _ => .crash

/-- `cb = addrxlat_ctx_get_cb(ctx); cb->h(cb, …)`. -/
def invoke (fuel : Nat) (stack : List Layer) (h : Hook) : Res :=
  callFn fuel stack h stack

/-- A call that the libraries themselves make through the top record of a context:
`ctx->cb->h(ctx->cb, …)` in libaddrxlat (page fetch of the read cache, read
capabilities, register / symbol / size / offset / number look-ups of the
translation set-up) and `cb = addrxlat_ctx_get_cb(ctx->xlatctx); cb->sym_value(cb, …)`
in libkdumpfile's `get_symbol_val` (UTS names, `_stext`).  The slot that is called
is the top record's; which record is passed is *not* written here: it comes from
`Kdf.Gen.topCallPasses`, regenerated from the C sources on every run.  `own` is
the position (from the top) of the caller's own record — libkdumpfile's
`ctx->xlatcb`, the bottom layer for libaddrxlat — which is what a site that does
not pass the top record passes instead. -/
def topCall (fuel : Nat) (stack : List Layer) (h : Hook) (own : Nat) : Res :=
  match Kdf.Gen.topCallPasses h with
  | .self => callFn fuel stack h stack
  | _ => callFn fuel stack h (stack.drop own)

/-- Specification: the first layer from the top that overrides `h` is called,
with its own record; if none does, the built-in default is. -/
def invokeSpec : List Layer → Hook → Res
  | [], h => .base h 0
  | L :: rest, h =>
    match L.impl h with
    | some f => .called f L.priv (rest.length + 1)
    | none => invokeSpec rest h

/-- `addrxlat_ctx_add_cb` followed by the caller's assignments. -/
def addCb (stack : List Layer) (L : Layer) : List Layer :=
  if Kdf.Gen.addCbLinksOnTop then L :: stack else stack ++ [L]

/-- `addrxlat_ctx_del_cb` of the layer at position `i` from the top. -/
def delCb (stack : List Layer) (i : Nat) : List Layer := stack.eraseIdx i

end Kdf.Model.Cb
