import Kdf.Model.Pfn
/-!
# Model of the per-format page lookup (C01)

Transcribes, at the level where their bugs live,

* `uncompress_rle` (`util.c`) together with the LKCD run-length *encoder*
  (`tests/rle.c`: `compress_rle`/`rleop`),
* the ELF page lookup: `find_closest_{mem,file}_{load,vload}` incl. the
  `last_load` / `last_vload` shortcut, `elf_get_page`, `elf_read_page`
  (`elfdump.c`),
* the diskdump lookup PFN → file map → region → descriptor position →
  descriptor → data (`pfn_to_pdpos`, `diskdump_read_page`, `diskdump.c`),
* the LKCD descriptor search (`get_page_desc`, `search_page_desc`,
  `lkcd_read_page`, `lkcd.c`) with the three-level block table abstracted to a
  finite map keyed by the table index of the frame,
* `sadump_read_page` (region position + offset inside the run, walk over the
  disk extents) and `s390_get_page`.

File contents, descriptors and decompressors are parameters.  A page result is
*symbolic*: it says which file bytes (or zeroes) make up the page, so that it
can be compared with the bytes the implementation delivered.
-/
namespace Kdf.Model.Dump
open Kdf.Model.Pfn

/-! ## `uncompress_rle` -/

inductive RleResult where
  | ok (out : List Nat)      -- return 0, `*pdstlen = out.length`
  | err                      -- return -1
  | oobRead                  -- a read of `src[i]` with `i ≥ srclen` (never: `rle_total`)
  | oobWrite                 -- a write past `dst + dstlen`          (never: `rle_total`)
  deriving DecidableEq, Repr, Inhabited

/-- The `while (src < srcend)` loop.  `i` = `src` as an index, `remain` as in C,
`out` = the bytes written to `dst` so far (`dst` as an index is `out.length`).
Every `*src++` is a checked list access, every store is checked against
`dstlen`. -/
def rleGo (src : List Nat) (dstlen : Nat) : Nat → Nat → Nat → List Nat → RleResult
  | 0, _, _, _ => .err
  | fuel+1, i, remain, out =>
    if i < src.length then
      match src[i]? with
      | none => .oobRead
      | some byte =>
        if byte = 0 then
          if i + 1 ≥ src.length then .err                  -- `if (src >= srcend) return -1;`
          else match src[i+1]? with
            | none => .oobRead
            | some cnt =>
              if cnt ≠ 0 then
                if remain < cnt then .err
                else if i + 2 ≥ src.length then .err
                else match src[i+2]? with
                  | none => .oobRead
                  | some v =>
                    if out.length + cnt > dstlen then .oobWrite      -- memset(dst, v, cnt)
                    else rleGo src dstlen fuel (i+3) (remain - cnt) (out ++ List.replicate cnt v)
              else
                -- `0 0`: falls through to the literal path with byte = 0
                if remain = 0 then .err
                else if out.length + 1 > dstlen then .oobWrite
                else rleGo src dstlen fuel (i+2) (remain - 1) (out ++ [0])
        else
          if remain = 0 then .err
          else if out.length + 1 > dstlen then .oobWrite
          else rleGo src dstlen fuel (i+1) (remain - 1) (out ++ [byte])
    else .ok out

/-- `uncompress_rle(dst, &dstlen, src, srclen)` -/
def uncompressRle (src : List Nat) (dstlen : Nat) : RleResult :=
  rleGo src dstlen (src.length + 1) 0 dstlen []

/-- `rleop` of tests/rle.c: one run of `rep` (1..255) bytes `c` -/
def rleOp (c rep : Nat) : List Nat :=
  let len := min 3 (if c = 0 then rep + 1 else rep)
  if len > 2 then [0, rep, c] else if len > 1 then [c, c] else [c]

def rleEncGo : List Nat → Nat → Nat → List Nat
  | [], prev, rep => rleOp prev rep
  | cur :: rest, prev, rep =>
    if cur ≠ prev ∨ rep = 255 then rleOp prev rep ++ rleEncGo rest cur 1
    else rleEncGo rest prev (rep + 1)

/-- `compress_rle` (the encoder LKCD uses) -/
def rleEncode : List Nat → List Nat
  | [] => []
  | b :: rest => rleEncGo rest b 1

/-! ## ELF -/

structure LoadSeg where
  fileOffset : Nat
  filesz : Nat
  phys : Nat
  memsz : Nat
  virt : Nat
  deriving DecidableEq, Repr, Inhabited

/-! ### Number of program headers: ELF extended numbering (`init_elf32`, `init_elf64`)

A file with `0xffff` or more program headers stores `e_phnum = PN_XNUM` and the real
number in `sh_info` of section header 0; a file with `0xff00` or more sections stores
`e_shnum = 0` and the real number in `sh_size` of that header.  `sh0` is (`sh_size`,
`sh_info`) of section header 0, `none` if it cannot be read. -/
def PN_XNUM : Nat := 0xffff

/-- (number of sections, number of program headers) as `init_elf64` computes them; `none` = header error -/
def elfCounts (ePhnum eShnum eShoff : Nat) (sh0 : Option (Nat × Nat)) : Option (Nat × Nat) :=
  if eShoff ≠ 0 ∧ (eShnum = 0 ∨ ePhnum = PN_XNUM) then
    match sh0 with
    | none => none
    | some (size, info) =>
      let shnum := if eShnum = 0 then size else eShnum
      let phnum := if shnum > 0 ∧ ePhnum = PN_XNUM then info else ePhnum
      some (shnum, phnum)
  else some (eShnum, ePhnum)

/-- the LOAD segments the library knows: those among the first `phnum` entries of the program header table
(`tab`: index in the table, segment) -/
def elfLoads (tab : List (Nat × LoadSeg)) (phnum : Nat) : List LoadSeg :=
  (tab.filter fun e => e.1 < phnum).map (·.2)

/-- key of a segment in the address space of the request -/
def LoadSeg.key (s : LoadSeg) (kv : Bool) : Nat := if kv then s.virt else s.phys
/-- size the lookup is about: memory extent or file-backed extent -/
def LoadSeg.ext (s : LoadSeg) (mem : Bool) : Nat := if mem then s.memsz else s.filesz

def toSegs (l : List LoadSeg) (kv mem : Bool) : List Seg := l.map fun s => ⟨s.key kv, s.ext mem⟩

/-- `last_load` / `last_vload`: index into the respective sorted array -/
structure ElfLast where
  load : Option Nat := none
  vload : Option Nat := none
  deriving DecidableEq, Repr, Inhabited

/-- `find_closest_{mem,file}_{load,vload}(edp, addr, dist)`: the shortcut through
the remembered segment, then the scan over the sorted array (`findClosest` of
the C07 model); a hit of the scan is remembered. -/
def findSeg (sorted vsorted : List LoadSeg) (last : ElfLast) (kv mem : Bool) (addr dist : Nat) :
    ElfLast × Option LoadSeg :=
  let arr := if kv then vsorted else sorted
  let remembered := if kv then last.vload else last.load
  let short : Option LoadSeg :=
    match remembered with
    | none => none
    | some i => match arr[i]? with
      | none => none
      | some s => if addr ≥ s.key kv ∧ addr - s.key kv < s.ext mem then some s else none
  match short with
  | some s => (last, some s)
  | none =>
    match findClosest (toSegs arr kv mem) addr dist with
    | none => (last, none)
    | some i => match arr[i]? with
      | none => (last, none)
      | some s => (if kv then { last with vload := some i } else { last with load := some i }, some s)

inductive Piece where
  | zero (n : Nat)
  | file (off n : Nat)
  deriving DecidableEq, Repr, Inhabited

inductive ElfPage where
  | nodata                         -- KDUMP_ERR_NODATA "Page not found"
  | needXlat                       -- KVADDR not covered by a LOAD: address translation (external)
  | chunk (off : Nat)              -- whole page straight from the file at `off`
  | pieces (l : List Piece)        -- assembled by `elf_read_page`
  | oob                            -- `elf_read_page` would write outside the page buffer (never)
  deriving DecidableEq, Repr, Inhabited

/-- The `while (p < endp)` loop of `elf_read_page`.  `remaining` = `endp - p`. -/
def elfReadLoop (sorted vsorted : List LoadSeg) (kv : Bool) :
    Nat → ElfLast → Nat → Nat → List Piece → ElfLast × Option (List Piece)
  | 0, last, _, _, acc => (last, some acc)
  | fuel+1, last, addr, remaining, acc =>
    if remaining = 0 then (last, some acc)
    else
      match findSeg sorted vsorted last kv true addr remaining with
      | (last', none) => (last', some (acc ++ [.zero remaining]))
      | (last', some s) =>
        let loadaddr := s.key kv
        let gap := if loadaddr > addr then loadaddr - addr else 0
        if gap > remaining then (last', none)            -- memset past the buffer
        else
          let acc1 := if gap > 0 then acc ++ [.zero gap] else acc
          let addr1 := addr + gap
          let rem1 := remaining - gap
          let pos := s.fileOffset + addr1 - loadaddr
          let fsz := if loadaddr + s.filesz > addr1 then min rem1 (loadaddr + s.filesz - addr1) else 0
          let acc2 := if loadaddr + s.filesz > addr1 then acc1 ++ [.file pos fsz] else acc1
          let addr2 := addr1 + fsz
          let rem2 := rem1 - fsz
          if rem2 > 0 then
            let zsz := min rem2 (loadaddr + s.memsz - addr2)
            elfReadLoop sorted vsorted kv fuel last' (addr2 + zsz) (rem2 - zsz) (acc2 ++ [.zero zsz])
          else (last', some acc2)

/-- `elf_get_page` for a page-aligned `addr`, page size `sz` -/
def elfGetPage (sorted vsorted : List LoadSeg) (last : ElfLast) (kv zx : Bool) (addr sz : Nat) :
    ElfLast × ElfPage :=
  match findSeg sorted vsorted last kv zx addr sz with
  | (last', none) => (last', if kv then .needXlat else .nodata)
  | (last', some s) =>
    let loadaddr := s.key kv
    if loadaddr ≤ addr ∧ s.filesz ≥ addr - loadaddr + sz then
      (last', .chunk (s.fileOffset + addr - loadaddr))
    else
      match elfReadLoop sorted vsorted kv (sz + 1) last' addr sz [] with
      | (l, some ps) => (l, .pieces ps)
      | (l, none) => (l, .oob)

/-- bytes a piece list stands for, given the file -/
def renderPieces (file : Nat → Nat) : List Piece → List Nat
  | [] => []
  | .zero n :: t => List.replicate n 0 ++ renderPieces file t
  | .file off n :: t => (List.range n).map (fun i => file (off + i)) ++ renderPieces file t

def renderElf (file : Nat → Nat) (sz : Nat) : ElfPage → Option (List Nat)
  | .chunk off => some ((List.range sz).map fun i => file (off + i))
  | .pieces l => some (renderPieces file l)
  | _ => none

/-! ## diskdump -/

structure PageDesc where
  offset : Nat
  size : Nat
  flags : Nat
  deriving DecidableEq, Repr, Inhabited

inductive Method where
  | raw | zlib | lzo | snappy | zstd | rle | gzip
  deriving DecidableEq, Repr, Inhabited

inductive PageLoc where
  | oob                                   -- "Out-of-bounds PFN": NODATA whatever zero_excluded says
  | excluded                              -- not in the file: NODATA, or zeroes if zero_excluded
  | data (fidx off size : Nat) (m : Method)
  | corrupt                               -- descriptor rejected ("Wrong page size", duplicate PFN …)
  | notimpl                               -- unknown page type / compression
  | ioerr                                 -- descriptor or data outside the file
  deriving DecidableEq, Repr, Inhabited

/-- `pfn_to_pdpos` (element size `esz` = `sizeof(struct page_desc)` = 24) -/
def pfnToPos (rs : List Region) (esz pfn : Nat) : Option Nat :=
  match findRegion rs pfn with
  | some r => if pfn ≥ r.pfn then some (r.pos + (pfn - r.pfn) * esz) else none
  | none => none

/-- which compression the descriptor flags select (the order of the `if` chain) -/
def ddMethod (flags : Nat) : Option Method :=
  if flags &&& 0x27 = 0 then some .raw
  else if flags &&& 0x1 ≠ 0 then some .zlib
  else if flags &&& 0x2 ≠ 0 then some .lzo
  else if flags &&& 0x4 ≠ 0 then some .snappy
  else if flags &&& 0x20 ≠ 0 then some .zstd
  else none

/-- `diskdump_read_page` up to the point where the page data is located.
`maps` = the per-file maps sorted by `end_pfn`, each with its file index;
`readDesc fidx pos` = the decoded descriptor stored there. -/
def ddLocate (maps : List (FileMap × Nat)) (maxPfn ps : Nat)
    (readDesc : Nat → Nat → Option PageDesc) (pfn : Nat) : PageLoc :=
  if pfn ≥ maxPfn then .oob
  else
    match findFileMap (maps.map (·.1)) pfn with
    | none => .excluded
    | some (i, m) =>
      if m.startPfn ≤ pfn then
        match pfnToPos m.regions 24 pfn with
        | none => .excluded
        | some pos =>
          let fidx := (maps[i]?.map (·.2)).getD 0
          match readDesc fidx pos with
          | none => .ioerr
          | some pd =>
            match ddMethod pd.flags with
            | some .raw => if pd.size ≠ ps then .corrupt else .data fidx pd.offset pd.size .raw
            | some .lzo => .notimpl                       -- LZO is not compiled in
            | some meth => .data fidx pd.offset pd.size meth
            | none => .corrupt
      else .excluded

/-! ## LKCD -/

structure LkcdDesc where
  address : Nat
  size : Nat
  flags : Nat
  deriving DecidableEq, Repr, Inhabited

/-- The three-level table of PFN blocks, abstracted: `index` maps the table key
of a frame to the file offset of its descriptor. -/
structure LkcdState where
  lastOffset : Nat
  endOffset : Nat
  index : List (Nat × Nat)
  maxPfn : Nat
  deriving DecidableEq, Repr, Inhabited

inductive LkcdFind where
  | found (descOff : Nat) (dp : LkcdDesc)
  | nodata
  | dup                       -- "Duplicate PFN": KDUMP_ERR_CORRUPT
  | eof                       -- descriptor beyond the end of the file
  deriving DecidableEq, Repr, Inhabited

def lkLookup (index : List (Nat × Nat)) (key : Nat) : Option Nat :=
  (index.find? fun e => e.1 = key).map (·.2)

/-- `search_page_desc`: continue the scan of the page stream at `last_offset`.
`key` is the table index of a frame (`pfn` itself once all PFN bits take part;
`pfn % 2^32` describes the truncating macros). -/
def lkSearch (readDesc : Nat → Option LkcdDesc) (shift : Nat) (key : Nat → Nat) (pfn : Nat) :
    Nat → LkcdState → LkcdState × LkcdFind
  | 0, st => (st, .nodata)
  | fuel+1, st =>
    let off := st.lastOffset
    match readDesc off with
    | none => ({ st with endOffset := off }, .eof)
    | some dp =>
      if dp.flags &&& 4 ≠ 0 then ({ st with endOffset := off }, .nodata)     -- DUMP_END
      else
        let cur := dp.address / 2^shift
        match lkLookup st.index (key cur) with
        | some _ => (st, .dup)
        | none =>
          let st' : LkcdState :=
            { st with index := st.index ++ [(key cur, off)],
                      maxPfn := if cur ≥ st.maxPfn then cur + 1 else st.maxPfn,
                      lastOffset := off + 16 + dp.size }
          if cur = pfn then (st', .found off dp) else lkSearch readDesc shift key pfn fuel st'

/-- `get_page_desc` -/
def lkGet (readDesc : Nat → Option LkcdDesc) (shift : Nat) (key : Nat → Nat) (fuel : Nat)
    (st : LkcdState) (pfn : Nat) : LkcdState × LkcdFind :=
  match lkLookup st.index (key pfn) with
  | some off =>
    match readDesc off with
    | some dp => (st, .found off dp)
    | none => (st, .eof)
  | none =>
    if st.lastOffset = st.endOffset then (st, .nodata)
    else lkSearch readDesc shift key pfn fuel st

/-! ### Transient read failures

`read_page_desc` can fail for reasons that say nothing about the file (`KDUMP_ERR_SYSTEM` from a `pread` that returns
`EIO`, `KDUMP_ERR_BUSY`).  `bad` is the file offset at which the next descriptor read fails; the result `none` stands
for that failure status.  Only `KDUMP_ERR_EOF` marks the end of the stream (`end_offset`): after a transient failure
the scan state is what the descriptors read so far have made it, and the next call resumes there. -/

def lkSearchF (readDesc : Nat → Option LkcdDesc) (shift : Nat) (key : Nat → Nat) (pfn : Nat) (bad : Nat) :
    Nat → LkcdState → LkcdState × Option LkcdFind
  | 0, st => (st, some .nodata)
  | fuel+1, st =>
    let off := st.lastOffset
    if off = bad then (st, none)
    else
    match readDesc off with
    | none => ({ st with endOffset := off }, some .eof)
    | some dp =>
      if dp.flags &&& 4 ≠ 0 then ({ st with endOffset := off }, some .nodata)     -- DUMP_END
      else
        let cur := dp.address / 2^shift
        match lkLookup st.index (key cur) with
        | some _ => (st, some .dup)
        | none =>
          let st' : LkcdState :=
            { st with index := st.index ++ [(key cur, off)],
                      maxPfn := if cur ≥ st.maxPfn then cur + 1 else st.maxPfn,
                      lastOffset := off + 16 + dp.size }
          if cur = pfn then (st', some (.found off dp)) else lkSearchF readDesc shift key pfn bad fuel st'

/-- `get_page_desc` while the descriptor at `bad` cannot be read -/
def lkGetF (readDesc : Nat → Option LkcdDesc) (shift : Nat) (key : Nat → Nat) (bad : Nat) (fuel : Nat)
    (st : LkcdState) (pfn : Nat) : LkcdState × Option LkcdFind :=
  match lkLookup st.index (key pfn) with
  | some off =>
    if off = bad then (st, none)
    else match readDesc off with
    | some dp => (st, some (.found off dp))
    | none => (st, some .eof)
  | none =>
    if st.lastOffset = st.endOffset then (st, some .nodata)
    else lkSearchF readDesc shift key pfn bad fuel st

/-- `lkcd_read_page` after the descriptor was found (`compression` from the header) -/
def lkLocate (compression ps maxPageSize : Nat) (off : Nat) (dp : LkcdDesc) : PageLoc :=
  let ty := dp.flags &&& 3
  if ty = 2 then                                    -- DUMP_COMPRESSED
    if dp.size > maxPageSize then .corrupt
    else if compression = 1 then .data 0 (off + 16) dp.size .rle
    else if compression = 2 then .data 0 (off + 16) dp.size .gzip
    else .notimpl
  else if ty = 1 then                               -- DUMP_RAW
    if dp.size ≠ ps then .corrupt else .data 0 (off + 16) dp.size .raw
  else .notimpl

/-! ## SADUMP, s390 -/

structure Extent where
  dataPos : Nat
  dataLen : Nat
  fidx : Nat
  deriving DecidableEq, Repr, Inhabited

/-- the `while (pos >= ext[disknum].data_len)` walk over the disks -/
def sadumpWalk : List Extent → Nat → Option (Nat × Nat)
  | [], _ => none
  | e :: es, pos => if pos ≥ e.dataLen then sadumpWalk es (pos - e.dataLen) else some (e.fidx, pos + e.dataPos)

/-- `sadump_read_page` -/
def sadumpLocate (rs : List Region) (exts : List Extent) (maxPfn ps pfn : Nat) : PageLoc :=
  if pfn ≥ maxPfn then .oob
  else match pfnToPos rs ps pfn with
    | none => .excluded
    | some pos =>
      match sadumpWalk exts pos with
      | none => .oob
      | some (fidx, p) => .data fidx p ps .raw

/-- `s390_get_page` -/
def s390Locate (dataoff maxPfn ps shift addr : Nat) : PageLoc :=
  if addr / 2^shift ≥ maxPfn then .oob else .data 0 (addr + dataoff) ps .raw

end Kdf.Model.Dump
