/-!
# Derived views of dump metadata — C14

Transcribes, at the level of the hook protocol of `set_attr` (`src/kdumpfile/attr.c`):

* `Page`  — `page_size_pre_hook` / `page_shift_pre_hook` / `page_shift_post_hook`
  (`util.c`): the mutually recursive pair `arch.page_size` / `arch.page_shift`;
* `Ver`   — `linux_ver_post_hook`, `linux_ver_clear_hook`, `linux_ver_revalidate`
  (`util.c`) with a model of `strtoul` and `KERNEL_VERSION`;
* `Cpu`   — `derived_attr_revalidate` / `derived_attr_update` (`util.c`): CPU register
  attributes as views of the PRSTATUS blob, byte order of the dump, cached value
  and `invalid` flag, `attr_has_value` short cut of `set_attr`;
* `Vmci`  — `vmcoreinfo_raw_post_hook`, `add_parsed_row`, `lines_post_hook`,
  `get_line_locked`, `kdump_vmcoreinfo_symbol` (`vmcoreinfo.c`) with the path
  behaviour of `create_attr_path` / `lookup_dir_attr` (`attr.c`) on dotted keys.

Numbers are `Nat` with explicit `% W`; byte strings are `List Nat`.  Undefined
behaviour of the C code (shift by >= 64, signed overflow in `KERNEL_VERSION`) is the
distinguished result `Out.ub`; running out of recursion fuel is `Out.fuel`.
Not modelled (parameters / outside): allocation failure, `realloc_caches` and
`do_arch_init` in the page-size post hook (absent on a context without a file),
the hash table itself (lookups are by full dotted path), NUL bytes inside texts.
-/
namespace Kdf.Model.Derived

abbrev W : Nat := 2^64
abbrev Bytes := List Nat

inductive Status
  | ok | system | notimpl | nodata | corrupt | invalid | nokey
  deriving DecidableEq, Repr, Inhabited

inductive Out (α : Type)
  | done (st : Status) (s : α)
  | ub
  | fuel
  deriving Repr

/-! ## strtoul / strtoull (glibc semantics, "C" locale) -/

def isSpace (c : Nat) : Bool := c == 32 || (9 ≤ c && c ≤ 13)

def digitVal (c : Nat) : Option Nat :=
  if 48 ≤ c ∧ c ≤ 57 then some (c - 48)
  else if 97 ≤ c ∧ c ≤ 122 then some (c - 87)
  else if 65 ≤ c ∧ c ≤ 90 then some (c - 55)
  else none

/-- digit loop: accumulated value (exact), number of digits, rest -/
def digitLoop (base : Nat) : Bytes → Nat → Nat → Nat × Nat × Bytes
  | [], acc, n => (acc, n, [])
  | c :: t, acc, n =>
    match digitVal c with
    | some d => if d < base then digitLoop base t (acc * base + d) (n + 1) else (acc, n, c :: t)
    | none => (acc, n, c :: t)

def isX (c : Nat) : Bool := c == 120 || c == 88

/-- `strtoull(s, &endp, base)` for base 0, 10 or 16: `(value, endp)` where `endp` is
the unconsumed suffix.  `endp = s` means "no conversion". -/
def strtou (base : Nat) (s : Bytes) : Nat × Bytes :=
  let s1 := s.dropWhile isSpace
  let (neg, s2) := match s1 with
    | 45 :: t => (true, t)
    | 43 :: t => (false, t)
    | _ => (false, s1)
  -- prefix handling
  let (b, s3, hadX) :=
    match s2 with
    | 48 :: x :: t =>
      if (base = 0 ∨ base = 16) ∧ isX x then (16, t, true)
      else if base = 0 then (8, s2, false) else (base, s2, false)
    | 48 :: _ => if base = 0 then (8, s2, false) else (base, s2, false)
    | _ => if base = 0 then (10, s2, false) else (base, s2, false)
  let (acc, n, rest) := digitLoop b s3 0 0
  if n = 0 then
    if hadX then (0, (s2.drop 1)) else (0, s)
  else
    let v := if acc ≥ W then W - 1 else if neg then (W - acc) % W else acc
    (v, rest)

/-! ## arch.page_size / arch.page_shift -/

structure Page where
  size : Option Nat := none
  shift : Option Nat := none
  deriving DecidableEq, Repr, Inhabited

/-- `ffsl` on a 64-bit value: 1 + index of the lowest set bit, 0 for 0. -/
def ffslGo : Nat → Nat → Nat
  | 0, _ => 0
  | n+1, v => if v % 2 = 1 then 1 else match ffslGo n (v / 2) with | 0 => 0 | k => k + 1
def ffsl (v : Nat) : Nat := ffslGo 64 v

/-- `page_size & ~(page_size - 1)` on `size_t` (for `v ≥ 1`). -/
def lowMask (v : Nat) : Nat := v &&& ((W - 1) - (v - 1))

mutual
/-- `set_attr(page_size, v)`: `attr_has_value` short cut, `page_size_pre_hook`, store,
`page_size_post_hook` (no file, no arch: nothing). -/
def setSize : Nat → Page → Nat → Out Page
  | 0, _, _ => .fuel
  | f+1, p, v =>
    if p.size = some v then .done .ok p
    else if v = 0 ∨ v ≠ lowMask v then .done .corrupt p
    else
      match setShift f p ((ffsl v + W - 1) % W) with
      | .done .ok p' => .done .ok { p' with size := some v }
      | r => r
/-- `set_attr(page_shift, s)`: short cut, `page_shift_pre_hook`, store,
`page_shift_post_hook` = `set_page_size(ctx, (size_t)1 << s)`. -/
def setShift : Nat → Page → Nat → Out Page
  | 0, _, _ => .fuel
  | f+1, p, s =>
    if p.shift = some s then .done .ok p
    else if s ≥ 64 then .done .corrupt p
    else
      let p1 := { p with shift := some s }
      if s ≥ 64 then .ub else setSize f p1 (2 ^ s)
end

/-- recursion depth used by the driver; `Props.C14.page_fuel` shows 4 is enough -/
def pageFuel : Nat := 8

def clearSize (p : Page) : Page := { p with size := none }
def clearShift (p : Page) : Page := { p with shift := none }

inductive PageOp
  | setSize (v : Nat) | setShift (s : Nat) | clearSize | clearShift
  deriving Repr

def pageStep (p : Page) : PageOp → Out Page
  | .setSize v => setSize pageFuel p v
  | .setShift s => setShift pageFuel p s
  | .clearSize => .done .ok (clearSize p)
  | .clearShift => .done .ok (clearShift p)

/-! ## linux.uts.release / linux.version_code -/

structure Ver where
  release : Option Bytes := none
  isset : Bool := false
  invalid : Bool := false
  val : Nat := 0
  deriving DecidableEq, Repr, Inhabited

/-- `KERNEL_VERSION(a,b,c)` on `long`; `none` = signed overflow / oversized shift (UB). -/
def kernelVersion (a b c : Nat) : Option Nat :=
  if a ≥ 2^47 ∨ b ≥ 2^55 ∨ c ≥ 2^63 then none
  else
    let r := a * 65536 + b * 256 + (if c > 255 then 255 else c)
    if r ≥ 2^63 then none else some r

/-- the parse of `linux_ver_revalidate`: `none` = "Invalid kernel version" -/
def parseRelease (s : Bytes) : Option (Nat × Nat × Nat) :=
  let (a, e1) := strtou 10 s
  if e1 = s ∨ (e1 ≠ [] ∧ e1.head? ≠ some 46) then none
  else if e1 = [] then some (a, 0, 0)
  else
    let p2 := e1.drop 1
    let (b, e2) := strtou 10 p2
    if e2 = p2 ∨ (e2 ≠ [] ∧ e2.head? ≠ some 46) then none
    else if e2 = [] then some (a, b, 0)
    else
      let p3 := e2.drop 1
      let (c, e3) := strtou 10 p3
      if e3 = p3 then none else some (a, b, c)

/-- `set_attr_string(linux.uts.release, s)` + `linux_ver_post_hook` -/
def setRelease (v : Ver) (s : Bytes) : Ver :=
  if v.release = some s then v
  else { v with release := some s, isset := true, invalid := true, val := 0 }

/-- `clear_attr(linux.uts.release)` with `linux_ver_clear_hook` -/
def clearRelease (v : Ver) : Ver :=
  { v with release := none, invalid := if v.isset then true else v.invalid }

/-- `kdump_get_attr(linux.version_code)` -/
def getVer (v : Ver) : Out (Ver × Option Nat) :=
  if !v.isset then .done .nodata (v, none)
  else if !v.invalid then .done .ok (v, some v.val)
  else match v.release with
    | none => .done .nodata (v, none)
    | some r =>
      match parseRelease r with
      | none => .done .corrupt (v, none)
      | some (a, b, c) =>
        match kernelVersion a b c with
        | none => .ub
        | some code => .done .ok ({ v with invalid := false, val := code }, some code)

/-! ## CPU registers as views of PRSTATUS -/

structure RegDef where
  name : String
  off : Nat
  len : Nat
  deriving DecidableEq, Repr, Inhabited

structure Reg where
  d : RegDef
  val : Nat := 0
  invalid : Bool := true
  deriving DecidableEq, Repr, Inhabited

structure Cpu where
  be : Bool := false
  blob : Bytes := []
  /-- `attr_isset(cpu.N.PRSTATUS)`: false after the blob attribute was cleared -/
  blobSet : Bool := true
  regs : List Reg := []
  deriving Repr, Inhabited

def decodeLE : Bytes → Nat
  | [] => 0
  | b :: t => b + 256 * decodeLE t
def decode (be : Bool) (bs : Bytes) : Nat := if be then decodeLE bs.reverse else decodeLE bs

def encodeLE : Nat → Nat → Bytes
  | 0, _ => []
  | n+1, v => (v % 256) :: encodeLE n (v / 256)
def encode (be : Bool) (len v : Nat) : Bytes :=
  if be then (encodeLE len v).reverse else encodeLE len v

def okLen (len : Nat) : Bool := len == 1 || len == 2 || len == 4 || len == 8

/-- `derived_attr_revalidate` -/
def regRevalidate (c : Cpu) (r : Reg) : Status × Reg :=
  if !c.blobSet then (.nodata, r)      -- get_attr_blob: "raw attribute not found"
  else if r.d.off + r.d.len > c.blob.length then (.corrupt, r)
  else if !okLen r.d.len then (.notimpl, r)
  else (.ok, { r with val := decode c.be ((c.blob.drop r.d.off).take r.d.len) })

def setNth {α} : List α → Nat → α → List α
  | [], _, _ => []
  | _ :: t, 0, a => a :: t
  | h :: t, n+1, a => h :: setNth t n a

/-- `kdump_get_attr(cpu.N.reg.X)`: `attr_revalidate` if flagged invalid -/
def getReg (c : Cpu) (i : Nat) : Status × Cpu × Option Nat :=
  match c.regs[i]? with
  | none => (.nokey, c, none)
  | some r =>
    if !r.invalid then (.ok, c, some r.val)
    else
      let (st, r') := regRevalidate c r
      (st, { c with regs := setNth c.regs i r' }, if st = .ok then some r'.val else none)

def patch (blob : Bytes) (off : Nat) (bs : Bytes) : Bytes :=
  blob.take off ++ bs ++ blob.drop (off + bs.length)

/-- `kdump_set_attr(cpu.N.reg.X, v)`: `set_attr` with the `attr_has_value` short cut
(never taken for a value flagged invalid) and `derived_attr_update` as post hook. -/
def setReg (c : Cpu) (i : Nat) (v : Nat) : Status × Cpu :=
  match c.regs[i]? with
  | none => (.nokey, c)
  | some r =>
    if !r.invalid ∧ r.val = v then (.ok, c)
    else
      -- stored with ATTR_PERSIST (invalid = 0); post hook flags it invalid again
      let r1 := { r with val := v, invalid := true }
      let c1 := { c with regs := setNth c.regs i r1 }
      if !c.blobSet then (.nodata, c1)
      else if r.d.off + r.d.len > c.blob.length then (.corrupt, c1)
      else if !okLen r.d.len then (.notimpl, c1)
      else (.ok, { c1 with blob := patch c.blob r.d.off (encode c.be r.d.len v) })

def setBlob (c : Cpu) (b : Bytes) : Cpu := { c with blob := b, blobSet := true }

/-- `clear_attr(cpu.N.PRSTATUS)` -/
def clearBlob (c : Cpu) : Cpu := { c with blob := [], blobSet := false }

/-- in-place edit through `kdump_blob_pin` -/
def poke (c : Cpu) (off : Nat) (bs : Bytes) : Option Cpu :=
  if c.blobSet ∧ off + bs.length ≤ c.blob.length then some { c with blob := patch c.blob off bs } else none

/-! ## Xen: `.xen_prstatus` — one fixed-size register record per virtual CPU

`process_x86_64_xen_prstatus` (`x86_64.c`) cuts the section into records of
`sizeof(struct xen_vcpu_guest_context)` bytes (a trailing partial record is ignored),
stores record `n` as blob `cpu.<n>.XEN_PRSTATUS` and creates the derived attributes
`cpu.<n>.reg.*` with the Xen record layout (`create_xen_cpu_regs`, `util.c`); their
hooks are the same `derived_attr_revalidate` / `derived_attr_update` as for PRSTATUS,
bound to the Xen blob of the same CPU. -/

/-- the `while (size >= sizeof(struct xen_vcpu_guest_context))` loop; fuel = section size -/
def xenSplit (recsz : Nat) : Nat → Bytes → List Bytes
  | 0, _ => []
  | fuel+1, data =>
    if recsz = 0 ∨ data.length < recsz then []
    else data.take recsz :: xenSplit recsz fuel (data.drop recsz)

/-- the per-CPU views a Xen register section creates -/
def xenCpus (be : Bool) (recsz : Nat) (defs : List RegDef) (data : Bytes) : List Cpu :=
  (xenSplit recsz data.length data).map fun b =>
    { be := be, blob := b, blobSet := true, regs := defs.map fun d => { d := d } }

/-- `kdump_get_attr(cpu.<n>.reg.X)` -/
def cpusGetReg (cs : List Cpu) (n i : Nat) : Status × List Cpu × Option Nat :=
  match cs[n]? with
  | none => (.nokey, cs, none)
  | some c => let r := getReg c i; (r.1, setNth cs n r.2.1, r.2.2)

/-- `kdump_set_attr(cpu.<n>.reg.X, v)` -/
def cpusSetReg (cs : List Cpu) (n i v : Nat) : Status × List Cpu :=
  match cs[n]? with
  | none => (.nokey, cs)
  | some c => let r := setReg c i v; (r.1, setNth cs n r.2)

/-- an operation on the blob attribute of CPU `n` (replace, clear, edit in place) -/
def cpusUpdate (cs : List Cpu) (n : Nat) (f : Cpu → Option Cpu) : Option (List Cpu) :=
  match cs[n]? with
  | none => none
  | some c => (f c).map (setNth cs n)

/-! ## VMCOREINFO -/

structure Row where
  key : Bytes
  val : Bytes
  deriving DecidableEq, Repr, Inhabited

/-- the `while (p < endp)` loop of `vmcoreinfo_raw_post_hook`: the lines, split at
`'\n'` (`memchr(p, '\n', endp - p) ?: endp`, then `p = endl + 1`) -/
def splitLines : Nat → Bytes → List Bytes
  | 0, _ => []
  | _, [] => []
  | f+1, s => s.takeWhile (· != 10) :: splitLines f ((s.dropWhile (· != 10)).drop 1)

/-- one line, split at the first `'='` (`memchr(p, '=', endl - p)`); without `'='` the
value is empty -/
def rowOfLine (l : Bytes) : Row := ⟨l.takeWhile (· != 61), (l.dropWhile (· != 61)).drop 1⟩

def rowsOf (raw : Bytes) : List Row := (splitLines (raw.length + 1) raw).map rowOfLine

/-- `b` lies below `a` in the attribute tree: `b = a ++ "." ++ …` -/
def isDotPrefix (a b : Bytes) : Bool := (a ++ [46]).isPrefixOf b

/-- a key with a leading dot: `create_attr_path` refuses such a path (for
`lookup_dir_attr` the dot only means "no fallback" and is stripped), and
`kdump_vmcoreinfo_line/symbol` answer "no such line/symbol" -/
def leadingDot (k : Bytes) : Bool := k.head? == some 46

abbrev Store (α : Type) := List (Bytes × α)

def Store.find {α} (s : Store α) (k : Bytes) : Option α := (s.find? (·.1 == k)).map (·.2)
def Store.isDir {α} (s : Store α) (k : Bytes) : Bool := s.any (fun e => isDotPrefix k e.1)
def Store.put {α} (s : Store α) (k : Bytes) (a : α) : Store α :=
  if s.any (·.1 == k) then s.map (fun e => if e.1 == k then (k, a) else e) else s ++ [(k, a)]

/-- dotted proper prefixes of `k`, longest first (`memrchr` loop of `create_attr_path`) -/
def dotPrefixes (k : Bytes) : List Bytes :=
  ((List.range k.length).filter (fun i => k[i]? == some 46)).reverse.map (fun i => k.take i)

inductive Slot
  | leaf        -- an existing leaf with this path: overwrite
  | dir         -- the path names a directory
  | fresh       -- can be created
  | blocked     -- an ancestor is a leaf, or the path starts with a dot
  deriving DecidableEq, Repr

/-- outcome of `create_attr_path(dir, k)` on a store of leaves -/
def slotOf {α} (s : Store α) (k : Bytes) : Slot :=
  if leadingDot k then .blocked
  else if (s.find k).isSome then .leaf
  else if s.isDir k then .dir
  else
    match (dotPrefixes k).find? (fun p => (s.find p).isSome || s.isDir p) with
    | some p => if (s.find p).isSome then .blocked else .fresh
    | none => .fresh

structure Typed where
  addr : Bool
  val : Nat
  /-- `attr_isset`: false once `clear_attr` has run on the leaf (it stays allocated: it is still
  found by `lookup_dir_attr` / `create_attr_path`, but has no value and is not listed) -/
  set : Bool := true
  deriving DecidableEq, Repr, Inhabited

/-- the value a typed leaf shows: none for an unset leaf -/
def Typed.shown (t : Typed) : Option (Bool × Nat) := if t.set then some (t.addr, t.val) else none

structure Ctx where
  page : Page := {}
  ver : Ver := {}
  raw : Option Bytes := none
  lines : Store Bytes := []
  typed : Store Typed := []
  /-- directories that have been instantiated (`instantiate_path`): "lines", "SYMBOL", … -/
  inst : List String := []
  deriving Repr, Inhabited

def bytesOf (s : String) : Bytes := s.toList.map Char.toNat

def typeNames : List String := ["LENGTH", "NUMBER", "OFFSET", "SIZE", "SYMBOL"]

def addInst (c : Ctx) (d : String) : Ctx := if c.inst.contains d then c else { c with inst := d :: c.inst }

/-- the `TYPE(sym)` part of `lines_post_hook` (`parsed_line_hook`) -/
def typedPost (c : Ctx) (key val : Bytes) : Out Ctx :=
  let ty := key.takeWhile (· != 40)
  let afterParen := key.dropWhile (· != 40)
  if afterParen = [] then .done .ok c
  else
    let sym0 := afterParen.drop 1
    let sym := sym0.takeWhile (· != 41)
    let tail := sym0.dropWhile (· != 41)
    if tail ≠ [41] then .done .ok c
    else
      match typeNames.find? (fun n => bytesOf n == ty) with
      | none => .done .ok c
      | some tn =>
        let isSym := tn == "SYMBOL"
        let (num, rest) := strtou (if isSym then 16 else 0) val
        let path := ty ++ [46] ++ sym
        if rest ≠ [] then
          -- invalid format: the line is ignored, but a leaf of the same type with this path
          -- (`lookup_dir_attr`; a directory does not match) is cleared: its value came from an
          -- earlier line with the same key
          match c.typed.find path with
          | some t =>
            if t.addr = isSym then .done .ok { c with typed := c.typed.put path { t with set := false } }
            else .done .ok c
          | none => .done .ok c
        else
          match slotOf c.typed path with
          | .blocked => .done .system c
          | .dir => .done .invalid c
          | _ => .done .ok (addInst { c with typed := c.typed.put path ⟨isSym, num, true⟩ } tn)

/-- `lines_post_hook` for the Linux directory -/
def linesPost (c : Ctx) (key val : Bytes) : Out Ctx :=
  if key = bytesOf "PAGESIZE" then
    let (v, rest) := strtou 10 val
    if rest ≠ [] then .done .ok c
    else
      match setSize pageFuel c.page v with
      | .done .ok p => typedPost { c with page := p } key val
      | .done st p => .done st { c with page := p }
      | .ub => .ub
      | .fuel => .fuel
  else if key = bytesOf "OSRELEASE" then
    typedPost { c with ver := setRelease c.ver val } key val
  else typedPost c key val

/-- `add_parsed_row` -/
def addRow (c : Ctx) (r : Row) : Out Ctx :=
  match slotOf c.lines r.key with
  | .blocked => .done .system c
  | .dir => .done .invalid c
  | _ =>
    let same := c.lines.find r.key == some r.val
    let c1 := addInst { c with lines := c.lines.put r.key r.val } "lines"
    if same then .done .ok c1 else linesPost c1 r.key r.val

def addRows (c : Ctx) : List Row → Out Ctx
  | [] => .done .ok c
  | r :: t =>
    match addRow c r with
    | .done .ok c' => addRows c' t
    | o => o

/-- `kdump_set_attr(linux.vmcoreinfo.raw, blob)` -/
def setRaw (c : Ctx) (b : Bytes) : Out Ctx :=
  addRows { c with raw := some b, lines := [], typed := [] } (rowsOf b)

/-- `clear_attr(linux.vmcoreinfo.raw)` -/
def clearRaw (c : Ctx) : Ctx := { c with raw := none, lines := [], typed := [] }

/-- `kdump_vmcoreinfo_line` -/
def vline (c : Ctx) (k : Bytes) : Status × Bytes :=
  if !c.inst.contains "lines" then (.nodata, [])
  else if leadingDot k then (.nodata, [])
  else match c.lines.find k with
    | some v => (.ok, v)
    | none => (.nodata, [])

/-- `kdump_vmcoreinfo_symbol` -/
def vsym (c : Ctx) (k : Bytes) : Status × Nat :=
  if !c.inst.contains "SYMBOL" then (.nodata, 0)
  else if leadingDot k then (.nodata, 0)
  else match c.typed.find (bytesOf "SYMBOL." ++ k) with
    | some t => if t.addr && t.set then (.ok, t.val) else (.nodata, 0)
    | none => (.nodata, 0)

/-- `kdump_vmcoreinfo_raw` -/
def vraw (c : Ctx) : Status × Bytes :=
  match c.raw with
  | some b => (.ok, b)
  | none => (.nodata, [])

end Kdf.Model.Derived
