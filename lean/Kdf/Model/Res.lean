/-!
# Resource model of the diskdump read path (C15)

Transcription of the resource-handling skeleton of

* `src/kdumpfile/fcache.c`: `fcache_get_mmap`, `fcache_get_read`, `fcache_get`,
  `fcache_pread`, `fcache_get_chunk` (embedded / array / copied shape and all
  error exits), `fcache_put_chunk`;
* `src/kdumpfile/diskdump.c`: `diskdump_read_page` (every compression branch,
  including the methods that are not compiled in);
* `src/kdumpfile/read.c`: `cache_get_page`, `cache_put_page`, `read_locked`;
  `src/kdumpfile/diskdump.c`: `diskdump_get_page` (excluded frames refused before the cache lookup);
* `src/kdumpfile/vtop.c`: `addrxlat_get_page`, `addrxlat_put_page`.

Every function produces the *event trace* the C code produces at the cache and
allocator interface (`cache_get_entry`, `cache_insert`, `cache_discard`,
`cache_put_entry`, `pread`, `mmap`, `malloc`, `free`).  What the environment
answers (is the entry valid, where is its buffer, does `pread`/`mmap`/`malloc`
succeed) is the *oracle*, consumed in call order; what the file contains (page
descriptors, whether the data decompresses) is a parameter.  If the oracle does
not fit the call that is made, the result is the distinguished `stuck` (with an
empty trace), never a default.

The ledger semantics at the end (`applyEv`, `runEvs`) says what a trace does to
the multiset of held resources; `Kdf.Props.C15` proves that every function
gives back exactly what it took, on every path.
-/
namespace Kdf.Model.Res

inductive CacheId
  | pc   -- page cache (`shared->cache`)
  | fc   -- mmap cache (`fcache->cache`)
  | fb   -- read cache (`fcache->fbcache`)
  deriving DecidableEq, Repr

inductive Status
  | ok | system | notimpl | nodata | corrupt | invalid | nokey | eof | busy | addrxlat
  | nomem      -- ADDRXLAT_ERR_NOMEM of `addrxlat_get_page`
  deriving DecidableEq, Repr

inductive MemTag
  | fces   -- `fces = malloc(nent * sizeof(*fces))` in `fcache_get_chunk`
  | data   -- `data = malloc(len)` in `fcache_get_chunk`
  | pio    -- `pio = malloc(sizeof *pio)` in `addrxlat_get_page`
  | cb     -- `cb = malloc(sizeof *cb)` in `addrxlat_ctx_add_cb`
  deriving DecidableEq, Repr

/-- something the library can hold -/
inductive Res
  | pin (c : CacheId) (key : Nat)
  | mem (t : MemTag) (size : Nat)
  deriving DecidableEq, Repr

inductive Ev
  | acq (c : CacheId) (key : Nat)       -- cache_get_entry returned an entry
  | busy (c : CacheId) (key : Nat)      -- cache_get_entry returned NULL
  | ins (c : CacheId) (key : Nat)       -- cache_insert
  | discard (c : CacheId) (key : Nat)   -- cache_discard (drops the reference)
  | put (c : CacheId) (key : Nat)       -- cache_put_entry
  | pread (off : Nat) (ok : Bool)
  | mmap (off : Nat) (ok : Bool)
  | malloc (t : MemTag) (size : Nat) (ok : Bool)
  | free (t : MemTag) (size : Nat)
  deriving DecidableEq, Repr

/-- answers of the environment, in call order -/
inductive Ext
  | entHit (data : Option Nat)   -- valid entry; `none`: its data is MAP_FAILED
  | entMiss (data : Nat)         -- entry that still has to be filled
  | entBusy                      -- no entry available
  | io (ok : Bool)               -- pread
  | map (addr : Option Nat)      -- mmap (`none` = MAP_FAILED)
  | alloc (ok : Bool)            -- malloc
  deriving DecidableEq, Repr

inductive R (α : Type)
  | ok (a : α)
  | err (s : Status)
  | stuck
  deriving Repr

structure Out (α : Type) where
  res : R α
  evs : List Ev
  orc : List Ext

def stuckOut {α : Type} (orc : List Ext) : Out α := ⟨.stuck, [], orc⟩

inductive Policy
  | never | always | try_ | tryOnce
  deriving DecidableEq, Repr

structure Cfg where
  pgsz : Nat        -- fc->pgsz
  mmapsz : Nat      -- fc->mmapsz
  filesz : Nat      -- fc->info[fidx].filesz
  fceSize : Nat     -- sizeof(struct fcache_entry)
  pioSize : Nat     -- sizeof(struct page_io)
  embed : Nat       -- MAX_EMBED_FCES
  ps : Nat          -- dump page size
  maxPfn : Nat
  zeroExcluded : Bool
  lzo : Bool        -- USE_LZO
  snappy : Bool     -- USE_SNAPPY
  zstd : Bool       -- USE_ZSTD

structure Fce where
  data : Nat
  len : Nat
  c : CacheId
  key : Nat
  deriving Repr

/-! ## fcache.c -/

/-- `fcache_get_mmap` -/
def fcacheGetMmap (cfg : Cfg) (fidx pos : Nat) (orc : List Ext) : Out Fce :=
  if pos - pos % cfg.pgsz ≥ cfg.filesz then ⟨.err .eof, [], orc⟩
  else
    let blkpos := pos - pos % cfg.mmapsz
    let key := blkpos ||| fidx
    let off := pos % cfg.mmapsz
    match orc with
    | .entBusy :: o => ⟨.err .busy, [.busy .fc key], o⟩
    | .entHit (some a) :: o => ⟨.ok ⟨a + off, cfg.mmapsz - off, .fc, key⟩, [.acq .fc key], o⟩
    | .entHit none :: o => ⟨.err .system, [.acq .fc key, .put .fc key], o⟩
    | .entMiss _ :: .map (some a) :: o =>
        ⟨.ok ⟨a + off, cfg.mmapsz - off, .fc, key⟩, [.acq .fc key, .mmap blkpos true, .ins .fc key], o⟩
    | .entMiss _ :: .map none :: o =>
        ⟨.err .system, [.acq .fc key, .mmap blkpos false, .ins .fc key, .put .fc key], o⟩
    | _ => stuckOut orc

/-- `fcache_get_read` -/
def fcacheGetRead (cfg : Cfg) (fidx pos : Nat) (orc : List Ext) : Out Fce :=
  let blkpos := pos - pos % cfg.pgsz
  let key := blkpos ||| fidx
  let off := pos % cfg.pgsz
  if blkpos > 0 ∧ blkpos ≥ cfg.filesz then ⟨.err .eof, [], orc⟩ else
  match orc with
  | .entBusy :: o => ⟨.err .busy, [.busy .fb key], o⟩
  | .entHit (some a) :: o => ⟨.ok ⟨a + off, cfg.pgsz - off, .fb, key⟩, [.acq .fb key], o⟩
  | .entMiss a :: .io true :: o =>
      ⟨.ok ⟨a + off, cfg.pgsz - off, .fb, key⟩, [.acq .fb key, .pread blkpos true, .ins .fb key], o⟩
  | .entMiss _ :: .io false :: o =>
      ⟨.err .system, [.acq .fb key, .pread blkpos false, .discard .fb key], o⟩
  | _ => stuckOut orc

/-- `fcache_get`; the policy is state of the file cache -/
def fcacheGet (cfg : Cfg) (pol : Policy) (fidx pos : Nat) (orc : List Ext) : Out (Fce × Policy) :=
  match pol with
  | .never =>
      match fcacheGetRead cfg fidx pos orc with
      | ⟨.ok f, e, o⟩ => ⟨.ok (f, pol), e, o⟩
      | ⟨.err s, e, o⟩ => ⟨.err s, e, o⟩
      | ⟨.stuck, _, _⟩ => stuckOut orc
  | _ =>
      match fcacheGetMmap cfg fidx pos orc with
      | ⟨.stuck, _, _⟩ => stuckOut orc
      | ⟨.ok f, e, o⟩ => ⟨.ok (f, if pol = .tryOnce then .always else pol), e, o⟩
      | ⟨.err s, e, o⟩ =>
          if pol = .always then ⟨.err s, e, o⟩
          else
            -- TRY falls back to read(2); TRY_ONCE becomes NEVER first
            match fcacheGetRead cfg fidx pos o with
            | ⟨.ok f, e2, o2⟩ => ⟨.ok (f, if pol = .tryOnce then .never else pol), e ++ e2, o2⟩
            | ⟨.err s2, e2, o2⟩ => ⟨.err s2, e ++ e2, o2⟩
            | ⟨.stuck, _, _⟩ => stuckOut orc

/-- the policy after a failed `fcache_get` -/
def polAfterErr (pol : Policy) : Policy := if pol = .tryOnce then .never else pol

/-- `fcache_pread`: `fuel` bounds the `while (len)` loop (each round consumes
at least one byte when `pgsz > 0`) -/
def fcachePread (cfg : Cfg) : Nat → Policy → Nat → Nat → Nat → List Ext → Out Policy
  | 0, pol, len, _, _, orc => if len = 0 then ⟨.ok pol, [], orc⟩ else stuckOut orc
  | fuel + 1, pol, len, fidx, pos, orc =>
    if len = 0 then ⟨.ok pol, [], orc⟩
    else
      match fcacheGet cfg pol fidx pos orc with
      | ⟨.stuck, _, _⟩ => stuckOut orc
      | ⟨.err s, e, o⟩ => ⟨.err s, e, o⟩
      | ⟨.ok (f, pol'), e, o⟩ =>
          let partlen := if f.len < len then f.len else len
          match fcachePread cfg fuel pol' (len - partlen) fidx (pos + partlen) o with
          | ⟨.stuck, _, _⟩ => stuckOut orc
          | ⟨r, e2, o2⟩ => ⟨r, e ++ [.put f.c f.key] ++ e2, o2⟩

/-- `fcache_put`: the entry `fcache_get_fb` hands back has no cache (`none`)
when the data was read into the caller's bounce buffer; nothing is released then -/
def fcachePut : Option Fce → List Ev
  | some f => [.put f.c f.key]
  | none => []

/-- `fcache_get_fb(fc, fce, fidx, pos, fb, sz)`: the entry that holds `pos`, or —
when fewer than `sz` bytes are left in that entry (the object straddles a
cache-entry boundary) — the entry is released and the bytes are read into the
bounce buffer (`none`: `fce->cache = NULL`) -/
def fcacheGetFb (cfg : Cfg) (pol : Policy) (fidx pos sz : Nat) (orc : List Ext) : Out (Option Fce × Policy) :=
  match fcacheGet cfg pol fidx pos orc with
  | ⟨.stuck, _, _⟩ => stuckOut orc
  | ⟨.err s, e, o⟩ => ⟨.err s, e, o⟩
  | ⟨.ok (f, pol'), e, o⟩ =>
      if f.len < sz then
        match fcachePread cfg sz pol' sz fidx pos o with
        | ⟨.stuck, _, _⟩ => stuckOut orc
        | ⟨.ok pol2, e2, o2⟩ => ⟨.ok (none, pol2), e ++ [.put f.c f.key] ++ e2, o2⟩
        | ⟨.err s, e2, o2⟩ => ⟨.err s, e ++ [.put f.c f.key] ++ e2, o2⟩
      else ⟨.ok (some f, pol'), e, o⟩

/-- state of the table scan of `make_xen_pfn_map_auto` / `_nonauto`
(src/kdumpfile/elfdump.c): the entry the cursor is in and the bytes left in it -/
structure ScanSt where
  cur : Option Fce        -- `fce.cache != NULL`: the entry that is held
  left : Nat              -- `fce.len`

/-- the `while (pos <= endpos)` loop of `make_xen_pfn_map_*`: records of `entsz`
bytes from `pos`, `n` of them; `addOk k` says whether `pfn2idx_map_add` accepts
the k-th record (it allocates).  On a read failure nothing is held (`err_read`),
on a rejected record the current entry is released (`err_pfn`), at the end the
last entry is released. -/
def xenMapScan (cfg : Cfg) (entsz : Nat) (addOk : Nat → Bool) :
    Nat → Nat → Policy → Nat → ScanSt → List Ext → Out Policy
  | 0, _, pol, _, st, orc => ⟨.ok pol, fcachePut st.cur, orc⟩
  | n + 1, k, pol, pos, st, orc =>
    if st.left < entsz then
      match fcacheGetFb cfg pol 0 pos entsz orc with
      | ⟨.stuck, _, _⟩ => stuckOut orc
      | ⟨.err s, e, o⟩ => ⟨.err s, fcachePut st.cur ++ e, o⟩
      | ⟨.ok (cur', pol'), e, o⟩ =>
          let len' := match cur' with | some f => f.len | none => entsz
          if addOk k then
            match xenMapScan cfg entsz addOk n (k + 1) pol' (pos + entsz) ⟨cur', len' - entsz⟩ o with
            | ⟨.stuck, _, _⟩ => stuckOut orc
            | ⟨r, e2, o2⟩ => ⟨r, fcachePut st.cur ++ e ++ e2, o2⟩
          else ⟨.err .system, fcachePut st.cur ++ e ++ fcachePut cur', o⟩
    else
      if addOk k then
        xenMapScan cfg entsz addOk n (k + 1) pol (pos + entsz) ⟨st.cur, st.left - entsz⟩ orc
      else ⟨.err .system, fcachePut st.cur, orc⟩

/-- the `for (;;)` loop of `verify_magic_number` (src/kdumpfile/sadump.c): the cursor walks over
32-bit words inside the held entry `f` (`left` bytes of it remain, the current word included);
when the entry is used up it is released and the entry of the next position is fetched.
`cont k` says whether the k-th word continues the magic sequence (file content: a parameter).
A failing fetch ends the scan with nothing held (`read_err`: the old entry has been released
already), a fetched entry with fewer than four bytes is released (`read_err_put`; the C code
returns the status variable, which is still `KDUMP_OK` there), and so is the entry in which the
sequence ends. -/
def magicLoop (cfg : Cfg) (fidx : Nat) (cont : Nat → Bool) :
    Nat → Nat → Policy → Nat → Fce → Nat → List Ext → Out Policy
  | 0, _, _, _, _, _, orc => stuckOut orc
  | fuel + 1, k, pol, pos, f, left, orc =>
    if left - 4 = 0 then
      match fcacheGet cfg pol fidx (pos + 4) orc with
      | ⟨.stuck, _, _⟩ => stuckOut orc
      | ⟨.err s, e, o⟩ => ⟨.err s, [.put f.c f.key] ++ e, o⟩
      | ⟨.ok (f', pol'), e, o⟩ =>
        if f'.len < 4 then ⟨.err .ok, [.put f.c f.key] ++ e ++ [.put f'.c f'.key], o⟩
        else if cont k then
          match magicLoop cfg fidx cont fuel (k + 1) pol' (pos + 4) f' f'.len o with
          | ⟨.stuck, _, _⟩ => stuckOut orc
          | ⟨r, e2, o2⟩ => ⟨r, [.put f.c f.key] ++ e ++ e2, o2⟩
        else ⟨.ok pol', [.put f.c f.key] ++ e ++ [.put f'.c f'.key], o⟩
    else if cont k then magicLoop cfg fidx cont fuel (k + 1) pol (pos + 4) f (left - 4) orc
    else ⟨.ok pol, [.put f.c f.key], orc⟩

/-- `verify_magic_number(ctx, fidx, &pos)`: `pos` is the position of the first magic number -/
def verifyMagic (cfg : Cfg) (fidx : Nat) (cont : Nat → Bool) (fuel : Nat) (pol : Policy) (pos : Nat)
    (orc : List Ext) : Out Policy :=
  match fcacheGet cfg pol fidx pos orc with
  | ⟨.stuck, _, _⟩ => stuckOut orc
  | ⟨.err s, e, o⟩ => ⟨.err s, e, o⟩
  | ⟨.ok (f, pol'), e, o⟩ =>
    if f.len < 4 then ⟨.err .ok, e ++ [.put f.c f.key], o⟩
    else
      match magicLoop cfg fidx cont fuel 0 pol' pos f f.len o with
      | ⟨.stuck, _, _⟩ => stuckOut orc
      | ⟨r, e2, o2⟩ => ⟨r, e ++ e2, o2⟩

/-- `put_fces(fces, n)` releases from the last entry down; `held` lists the
entries most recent first, which is exactly that order -/
def putFces (held : List Fce) : List Ev := held.map (fun f => Ev.put f.c f.key)

/-- `struct fcache_chunk` as `fcache_put_chunk` sees it -/
structure Chunk where
  nent : Nat                -- fch->nent
  fces : List Fce           -- the entries, most recent first (embed_fces or *fces)
  arr : Option Nat          -- size of the malloc'ed entry array, if any
  data : Option Nat         -- size of the malloc'ed copy buffer, if any
  deriving Repr

/-- state of the `while (remain)` loop of `fcache_get_chunk` -/
structure ChunkSt where
  pol : Policy
  cap : Nat                 -- slots in the array curfce walks over (estimate or MAX_EMBED_FCES)
  arr : Option Nat          -- `fces` is allocated (and not yet freed): its size
  held : List Fce           -- entries curfce-nent .. curfce-1, most recent first
  data : Option Nat         -- copy buffer allocated: its size (then `held = []`)
  curdata : Nat
  remain : Nat
  pos : Nat
  nent : Nat

inductive ChunkRes
  | chunk (c : Chunk) (pol : Policy)
  deriving Repr

def freeArr (arr : Option Nat) : List Ev :=
  match arr with
  | some sz => [.free .fces sz]
  | none => []

def freeData (d : Option Nat) : List Ev :=
  match d with
  | some sz => [.free .data sz]
  | none => []

/-- the end of `fcache_get_chunk` after the loop -/
def chunkFinish (cfg : Cfg) (s : ChunkSt) : Chunk × List Ev :=
  match s.data with
  | some sz => (⟨0, [], none, some sz⟩, [])
  | none =>
    if s.nent > cfg.embed then (⟨s.nent, s.held, s.arr, none⟩, [])
    else (⟨s.nent, s.held, none, none⟩, freeArr s.arr)     -- memcpy into embed_fces, free(fces)

/-- the entry as the loop uses it: `if (curfce->len > remain) curfce->len = remain` -/
def clampFce (f0 : Fce) (remain : Nat) : Fce :=
  { f0 with len := if f0.len > remain then remain else f0.len }

/-- loop state after an entry that continues the contiguous run was kept -/
def stepKeep (s : ChunkSt) (f : Fce) (pol' : Policy) : ChunkSt :=
  { s with pol := pol', held := f :: s.held,
           curdata := (if s.nent = 0 then f.data else s.curdata) + f.len,
           pos := s.pos + f.len, remain := s.remain - f.len, nent := s.nent + 1 }

/-- loop state after an entry was copied and released (copy mode) -/
def stepCopy (s : ChunkSt) (f : Fce) (pol' : Policy) : ChunkSt :=
  { s with pol := pol', curdata := s.curdata + f.len, pos := s.pos + f.len,
           remain := s.remain - f.len, nent := s.nent + 1 }

/-- loop state after the switch to a copied buffer of `len` bytes -/
def stepSwitch (s : ChunkSt) (f : Fce) (pol' : Policy) (len : Nat) : ChunkSt :=
  { s with pol := pol', arr := none, held := [], data := some len,
           curdata := s.curdata + f.len, pos := s.pos + f.len,
           remain := s.remain - f.len, nent := s.nent + 1 }

/-- the loop of `fcache_get_chunk`.  If an entry would be stored outside the
array `curfce` walks over (undefined behaviour in C) the result is the
distinguished `stuck`. -/
def chunkLoop (cfg : Cfg) (len fidx : Nat) : Nat → ChunkSt → List Ext → Out ChunkRes
  | 0, s, orc =>
      if s.remain = 0 then ⟨.ok (.chunk (chunkFinish cfg s).1 s.pol), (chunkFinish cfg s).2, orc⟩
      else stuckOut orc
  | fuel + 1, s, orc =>
    if s.remain = 0 then ⟨.ok (.chunk (chunkFinish cfg s).1 s.pol), (chunkFinish cfg s).2, orc⟩
    else if s.data = none ∧ s.held.length ≥ s.cap then
      stuckOut orc       -- `curfce` would point past the entry array
    else
      match fcacheGet cfg s.pol fidx s.pos orc with
      | ⟨.stuck, _, _⟩ => stuckOut orc
      | ⟨.err st, e, o⟩ =>
          -- error exit (after the fix): copy buffer, or entries + array
          ⟨.err st, e ++ (match s.data with
                          | some sz => [.free .data sz]
                          | none => putFces s.held ++ freeArr s.arr), o⟩
      | ⟨.ok (f0, pol'), e, o⟩ =>
          let f := clampFce f0 s.remain
          match s.data with
          | some _ =>
              -- already copying: memcpy, fcache_put(curfce)
              match chunkLoop cfg len fidx fuel (stepCopy s f pol') o with
              | ⟨.stuck, _, _⟩ => stuckOut orc
              | ⟨r, e2, o2⟩ => ⟨r, e ++ [.put f.c f.key] ++ e2, o2⟩
          | none =>
              if s.nent = 0 ∨ f.data = s.curdata then
                -- contiguous so far: keep the entry
                match chunkLoop cfg len fidx fuel (stepKeep s f pol') o with
                | ⟨.stuck, _, _⟩ => stuckOut orc
                | ⟨r, e2, o2⟩ => ⟨r, e ++ e2, o2⟩
              else
                -- first non-contiguous entry: switch to a copied buffer
                match o with
                | .alloc false :: o' =>
                    ⟨.err .system, e ++ [.malloc .data len false] ++ putFces (f :: s.held) ++ freeArr s.arr, o'⟩
                | .alloc true :: o' =>
                    match chunkLoop cfg len fidx fuel (stepSwitch s f pol' len) o' with
                    | ⟨.stuck, _, _⟩ => stuckOut orc
                    | ⟨r, e2, o2⟩ =>
                        ⟨r, e ++ [.malloc .data len true] ++ putFces s.held ++ freeArr s.arr
                              ++ [.put f.c f.key] ++ e2, o2⟩
                | _ => stuckOut orc

/-- `fcache_get_chunk` -/
def fcacheGetChunk (cfg : Cfg) (pol : Policy) (len fidx pos : Nat) (orc : List Ext) : Out ChunkRes :=
  if len = 0 then ⟨.ok (.chunk ⟨0, [], none, none⟩ pol), [], orc⟩
  else
    let first := pos - pos % cfg.pgsz
    let last := (pos + len - 1) - (pos + len - 1) % cfg.pgsz
    let est := (last - first) / cfg.pgsz + 1
    if est > cfg.embed then
      match orc with
      | .alloc false :: o => ⟨.err .system, [.malloc .fces (est * cfg.fceSize) false], o⟩
      | .alloc true :: o =>
          match chunkLoop cfg len fidx len
                  ⟨pol, est, some (est * cfg.fceSize), [], none, 0, len, pos, 0⟩ o with
          | ⟨.stuck, _, _⟩ => stuckOut orc
          | ⟨r, e, o2⟩ => ⟨r, .malloc .fces (est * cfg.fceSize) true :: e, o2⟩
      | _ => stuckOut orc
    else
      chunkLoop cfg len fidx len ⟨pol, cfg.embed, none, [], none, 0, len, pos, 0⟩ orc

/-- `fcache_put_chunk` -/
def fcachePutChunk (cfg : Cfg) (c : Chunk) : List Ev :=
  if c.nent > cfg.embed then putFces c.fces ++ freeArr c.arr
  else if c.nent ≠ 0 then putFces c.fces
  else freeData c.data

/-- what a chunk holds -/
def chunkRes (c : Chunk) : List Res :=
  (match c.data with | some sz => [Res.mem .data sz] | none => []) ++
  c.fces.map (fun f => Res.pin f.c f.key) ++
  (match c.arr with | some sz => [Res.mem .fces sz] | none => [])

/-! ## diskdump.c -/

/-- what the dump file says about one page: position of its descriptor
(`none`: excluded), the descriptor, and how decompression ends
(0 = fine, 1 = decompressor error, 2 = wrong size) -/
structure PageInfo where
  pdpos : Option Nat
  offset : Nat
  size : Nat
  flags : Nat
  dec : Nat

def DH_ZLIB := 0x1
def DH_LZO := 0x2
def DH_SNAPPY := 0x4
def DH_ZSTD := 0x20
def DH_COMPRESSED := 0x27
def pdSize := 24

def decStatus (dec : Nat) : R Unit :=
  if dec = 0 then .ok () else .err .corrupt

/-- `diskdump_read_page` (single file, not flattened: `flatmap_pread` =
`fcache_pread`, `flatmap_get_chunk` = `fcache_get_chunk`) -/
def diskdumpReadPage (cfg : Cfg) (pol : Policy) (pfn : Nat) (pg : PageInfo) (orc : List Ext) : Out Policy :=
  if pfn ≥ cfg.maxPfn then ⟨.err .nodata, [], orc⟩
  else match pg.pdpos with
  | none => if cfg.zeroExcluded then ⟨.ok pol, [], orc⟩ else ⟨.err .nodata, [], orc⟩
  | some pdpos =>
    match fcachePread cfg pdSize pol pdSize 0 pdpos orc with
    | ⟨.stuck, _, _⟩ => stuckOut orc
    | ⟨.err s, e, o⟩ => ⟨.err s, e, o⟩
    | ⟨.ok pol1, e, o⟩ =>
      if pg.flags &&& DH_COMPRESSED = 0 then
        if pg.size ≠ cfg.ps then ⟨.err .corrupt, e, o⟩
        else
          match fcachePread cfg pg.size pol1 pg.size 0 pg.offset o with
          | ⟨.stuck, _, _⟩ => stuckOut orc
          | ⟨.err s, e2, o2⟩ => ⟨.err s, e ++ e2, o2⟩
          | ⟨.ok pol2, e2, o2⟩ => ⟨.ok pol2, e ++ e2, o2⟩
      else
        match fcacheGetChunk cfg pol1 pg.size 0 pg.offset o with
        | ⟨.stuck, _, _⟩ => stuckOut orc
        | ⟨.err s, e2, o2⟩ => ⟨.err s, e ++ e2, o2⟩
        | ⟨.ok (.chunk c pol2), e2, o2⟩ =>
          let put := fcachePutChunk cfg c
          if pg.flags &&& DH_ZLIB ≠ 0 then
            ⟨(match decStatus pg.dec with | .ok _ => .ok pol2 | .err s => .err s | .stuck => .stuck), e ++ e2 ++ put, o2⟩
          else if pg.flags &&& DH_LZO ≠ 0 then
            if cfg.lzo then
              ⟨(match decStatus pg.dec with | .ok _ => .ok pol2 | .err s => .err s | .stuck => .stuck), e ++ e2 ++ put, o2⟩
            else ⟨.err .notimpl, e ++ e2 ++ put, o2⟩
          else if pg.flags &&& DH_SNAPPY ≠ 0 then
            if cfg.snappy then
              ⟨(match decStatus pg.dec with | .ok _ => .ok pol2 | .err s => .err s | .stuck => .stuck), e ++ e2 ++ put, o2⟩
            else ⟨.err .notimpl, e ++ e2 ++ put, o2⟩
          else
            -- only DUMP_DH_COMPRESSED_ZSTD is left in the mask
            if cfg.zstd then
              ⟨(match decStatus pg.dec with | .ok _ => .ok pol2 | .err s => .err s | .stuck => .stuck), e ++ e2 ++ put, o2⟩
            else ⟨.err .notimpl, e ++ e2 ++ put, o2⟩

/-! ## read.c -/

/-- `cache_get_page(pio, diskdump_read_page)`; `key = addr | as` -/
def cacheGetPage (cfg : Cfg) (pol : Policy) (key pfn : Nat) (pg : PageInfo) (orc : List Ext) : Out Policy :=
  match orc with
  | .entBusy :: o => ⟨.err .busy, [.busy .pc key], o⟩
  | .entHit _ :: o => ⟨.ok pol, [.acq .pc key], o⟩
  | .entMiss _ :: o =>
      match diskdumpReadPage cfg pol pfn pg o with
      | ⟨.stuck, _, _⟩ => stuckOut orc
      | ⟨.ok pol', e, o2⟩ => ⟨.ok pol', [.acq .pc key] ++ e ++ [.ins .pc key], o2⟩
      | ⟨.err s, e, o2⟩ => ⟨.err s, [.acq .pc key] ++ e ++ [.discard .pc key], o2⟩
  | _ => stuckOut orc

/-- `diskdump_get_page`: with `file.zero_excluded` off, an excluded frame below
`max_pfn` is refused *before* the cache lookup (the cache may still hold zeroes
from the time the attribute was set), so no cache event happens; everything
else goes through `cache_get_page(pio, diskdump_read_page)` -/
def diskdumpGetPage (cfg : Cfg) (pol : Policy) (key pfn : Nat) (pg : PageInfo) (orc : List Ext) : Out Policy :=
  if cfg.zeroExcluded = false ∧ pfn < cfg.maxPfn ∧ pg.pdpos.isNone = true then ⟨.err .nodata, [], orc⟩
  else cacheGetPage cfg pol key pfn pg orc

/-- `cache_put_page` = `fcache_put_chunk(&pio->chunk)` with `nent = 1` -/
def cachePutPage (key : Nat) : List Ev := [.put .pc key]

/-- `read_locked` on an address space the format reads directly; returns the
status and the number of bytes delivered.  `pages pfn` is the file's content. -/
def readLocked (cfg : Cfg) (pages : Nat → PageInfo) (as : Nat) :
    Nat → Policy → Nat → Nat → List Ext → Out (Nat × Policy)
  | 0, pol, _, remain, orc => if remain = 0 then ⟨.ok (0, pol), [], orc⟩ else stuckOut orc
  | fuel + 1, pol, addr, remain, orc =>
    if remain = 0 then ⟨.ok (0, pol), [], orc⟩
    else
      let pa := addr - addr % cfg.ps
      let key := pa ||| as
      let pfn := pa / cfg.ps
      match diskdumpGetPage cfg pol key pfn (pages pfn) orc with
      | ⟨.stuck, _, _⟩ => stuckOut orc
      | ⟨.err s, e, o⟩ => ⟨.err s, e, o⟩
      | ⟨.ok pol', e, o⟩ =>
          let partlen := if cfg.ps - addr % cfg.ps > remain then remain else cfg.ps - addr % cfg.ps
          match readLocked cfg pages as fuel pol' (addr + partlen) (remain - partlen) o with
          | ⟨.stuck, _, _⟩ => stuckOut orc
          | ⟨.ok (n, p), e2, o2⟩ => ⟨.ok (n + partlen, p), e ++ cachePutPage key ++ e2, o2⟩
          | ⟨.err s, e2, o2⟩ => ⟨.err s, e ++ cachePutPage key ++ e2, o2⟩

/-- bytes delivered by `read_locked` when it fails (for the driver): the
successful rounds before the failing one -/
def readDelivered (cfg : Cfg) (pages : Nat → PageInfo) (as : Nat) :
    Nat → Policy → Nat → Nat → List Ext → Nat
  | 0, _, _, _, _ => 0
  | fuel + 1, pol, addr, remain, orc =>
    if remain = 0 then 0
    else
      let pa := addr - addr % cfg.ps
      match diskdumpGetPage cfg pol (pa ||| as) (pa / cfg.ps) (pages (pa / cfg.ps)) orc with
      | ⟨.ok pol', _, o⟩ =>
          let partlen := if cfg.ps - addr % cfg.ps > remain then remain else cfg.ps - addr % cfg.ps
          partlen + readDelivered cfg pages as fuel pol' (addr + partlen) (remain - partlen) o
      | _ => 0

/-! ## vtop.c -/

/-- `addrxlat_get_page` (after the fix: the descriptor is freed when
`get_page` fails) -/
def addrxlatGetPage (cfg : Cfg) (pol : Policy) (as addr : Nat) (pages : Nat → PageInfo) (orc : List Ext) : Out Policy :=
  match orc with
  | .alloc false :: o => ⟨.err .nomem, [.malloc .pio cfg.pioSize false], o⟩
  | .alloc true :: o =>
      let pa := addr - addr % cfg.ps
      let key := pa ||| as
      match diskdumpGetPage cfg pol key (pa / cfg.ps) (pages (pa / cfg.ps)) o with
      | ⟨.stuck, _, _⟩ => stuckOut orc
      | ⟨.ok pol', e, o2⟩ => ⟨.ok pol', .malloc .pio cfg.pioSize true :: e, o2⟩
      | ⟨.err s, e, o2⟩ => ⟨.err s, .malloc .pio cfg.pioSize true :: e ++ [.free .pio cfg.pioSize], o2⟩
  | _ => stuckOut orc

/-- `addrxlat_put_page` -/
def addrxlatPutPage (cfg : Cfg) (as addr : Nat) : List Ev :=
  cachePutPage ((addr - addr % cfg.ps) ||| as) ++ [.free .pio cfg.pioSize]

/-- what a successful `addrxlat_get_page` lends to libaddrxlat's read cache -/
def lentRes (cfg : Cfg) (as addr : Nat) : List Res :=
  [.mem .pio cfg.pioSize, .pin .pc ((addr - addr % cfg.ps) ||| as)]

/-! ## addrxlat/ctx.c: the read cache of a translation context and its callback records -/

/-- a page lent to the read cache: address space and page-aligned address -/
abbrev Page := Nat × Nat

/-- `struct read_cache`: the slots by array index (`some p`: `buffer.size != 0`,
the page was obtained through the `get_page` callback and is owed a
`put_page`), and the MRU ring as the list of slot indices, most recently used
first (`cache->mru` is its head, `cache->mru->prev` its last element) -/
structure RdCache where
  slots : List (Option Page)
  order : List Nat
  deriving DecidableEq, Repr

/-- `init_cache` -/
def rcInit (n : Nat) : RdCache := ⟨List.replicate n none, List.range n⟩

/-- the reuse scan of `get_cache_buf`: first slot, in array order, that holds the page -/
def rcFind : List (Option Page) → Page → Option Nat
  | [], _ => none
  | s :: t, p => if s = some p then some 0 else (rcFind t p).map (· + 1)

/-- `touch_cache_slot` -/
def rcTouch (rc : RdCache) (i : Nat) : RdCache := { rc with order := i :: rc.order.erase i }

def pageOf (cfg : Cfg) (as addr : Nat) : Page := (as, addr - addr % cfg.ps)

/-- `put_page` of an occupied slot -/
def slotPut (cfg : Cfg) : Option Page → List Ev
  | some q => addrxlatPutPage cfg q.1 q.2
  | none => []

/-- `get_cache_buf` with libkdumpfile's `addrxlat_get_page` as the page source
(reached through any number of pass-through records): reuse, or evict the LRU
slot (`put_page`), fetch, and on failure leave the slot empty.  (The repaired
code takes the least recently used slot that is not being filled by a get-page
callback in progress; `addrxlat_get_page` never reads through the context it
serves, so no slot is marked when a read starts and the choice is the LRU slot.
The re-entrant case, with the `filling` marks, is `Kdf.Model.RCache`.)  Returns the
outcome and the read cache afterwards (it changes on failure too). -/
def getCacheBuf (cfg : Cfg) (pol : Policy) (rc : RdCache) (as addr : Nat) (pages : Nat → PageInfo)
    (orc : List Ext) : Out Policy × RdCache :=
  let p := pageOf cfg as addr
  match rcFind rc.slots p with
  | some i => (⟨.ok pol, [], orc⟩, rcTouch rc i)
  | none =>
    let i := rc.order.getLast?.getD 0
    let evict := slotPut cfg (rc.slots.getD i none)
    let out := addrxlatGetPage cfg pol as addr pages orc
    match out.res with
    | .ok pol' => (⟨.ok pol', evict ++ out.evs, out.orc⟩, rcTouch { rc with slots := rc.slots.set i (some p) } i)
    | .err s => (⟨.err s, evict ++ out.evs, out.orc⟩, { rc with slots := rc.slots.set i none })
    | .stuck => (stuckOut orc, rc)

/-- `cleanup_cache`: every occupied slot, in array order, is given back -/
def cleanupCache (cfg : Cfg) : List (Option Page) → List Ev
  | [] => []
  | s :: t => slotPut cfg s ++ cleanupCache cfg t

/-- a translation context as far as resources go: read cache and the stack of
callback records (top first; identified by numbers, each `cbSize` bytes) -/
structure AxCtx where
  rc : RdCache
  cbs : List Nat
  deriving DecidableEq, Repr

/-- `addrxlat_ctx_add_cb` -/
def ctxAddCb (cbSize : Nat) (x : AxCtx) (id : Nat) (orc : List Ext) : Out Unit × AxCtx :=
  match orc with
  | .alloc true :: o => (⟨.ok (), [.malloc .cb cbSize true], o⟩, { x with cbs := id :: x.cbs })
  | .alloc false :: o => (⟨.err .nomem, [.malloc .cb cbSize false], o⟩, x)
  | _ => (stuckOut orc, x)

/-- `addrxlat_ctx_del_cb`: if the record is on the stack — wherever — every
cached page is given back first (it may have come through this record, whose
owner is about to go away), then the record is unlinked and freed -/
def ctxDelCb (cfg : Cfg) (cbSize : Nat) (x : AxCtx) (id : Nat) : List Ev × AxCtx :=
  if id ∈ x.cbs then
    (cleanupCache cfg x.rc.slots ++ [.free .cb cbSize],
     ⟨{ x.rc with slots := x.rc.slots.map (fun _ => none) }, x.cbs.erase id⟩)
  else ([], x)

/-- what the read cache owes -/
def rcRes (cfg : Cfg) : List (Option Page) → List Res
  | [] => []
  | some q :: t => lentRes cfg q.1 q.2 ++ rcRes cfg t
  | none :: t => rcRes cfg t

/-- the callback records that were allocated -/
def cbRes (cbSize : Nat) (cbs : List Nat) : List Res := cbs.map (fun _ => Res.mem .cb cbSize)

/-- the MRU ring names existing slots and is not empty -/
def RdCache.WF (rc : RdCache) : Prop := rc.order ≠ [] ∧ ∀ i ∈ rc.order, i < rc.slots.length

/-! ## ledger semantics -/

/-- effect of one event on the multiset of held resources; `none`: a resource
is given back that is not held -/
def applyEv (L : List Res) : Ev → Option (List Res)
  | .acq c k => some (.pin c k :: L)
  | .put c k => if Res.pin c k ∈ L then some (L.erase (.pin c k)) else none
  | .discard c k => if Res.pin c k ∈ L then some (L.erase (.pin c k)) else none
  | .malloc t s true => some (.mem t s :: L)
  | .free t s => if Res.mem t s ∈ L then some (L.erase (.mem t s)) else none
  | _ => some L

def runEvs : List Ev → List Res → Option (List Res)
  | [], L => some L
  | e :: es, L => (applyEv L e).bind (runEvs es)

/-- number of times `r` is taken / given back in a trace -/
def takes (r : Res) : List Ev → Nat
  | [] => 0
  | .acq c k :: es => (if r = .pin c k then 1 else 0) + takes r es
  | .malloc t s true :: es => (if r = .mem t s then 1 else 0) + takes r es
  | _ :: es => takes r es

def gives (r : Res) : List Ev → Nat
  | [] => 0
  | .put c k :: es => (if r = .pin c k then 1 else 0) + gives r es
  | .discard c k :: es => (if r = .pin c k then 1 else 0) + gives r es
  | .free t s :: es => (if r = .mem t s then 1 else 0) + gives r es
  | _ :: es => gives r es

end Kdf.Model.Res
