import Kdf.Model.Cache
/-!
# Concurrency model of the page-read protocol — C05

Small-step interleaving semantics of `n` threads (`n` arbitrary), each running the
protocol of `kdump_read` → `read_locked` → `cache_get_page` (`src/kdumpfile/read.c`)
on its own clone, over ONE shared page cache (the C06 model `Kdf.Model.Cache`, unchanged)
and the shared lock state (`shared->lock`, a rwlock; `shared->cache_lock`, a mutex):

```
kdump_read:        rwlock_rdlock(&shared->lock)                      ev rdlock
 cache_get_page:    mutex_lock(&shared->cache_lock)                  ev lock
                    entry = cache_get_entry(cache, key)              ev get k
                    mutex_unlock(&shared->cache_lock)                ev unlock
                    if (!entry) return BUSY
                    if (cache_entry_valid(entry)) return OK          (→ copy; the test itself is made
                                               -- under the lock in the repaired code)
                    ret = fn(pio)              -- fill, NOT under cache_lock; the fill routines
                                               -- take and release cache_lock themselves around
                                               -- file-cache accesses (ev lock / ev unlock)
                                               -- and write the page buffer   ev fillEnd ok
                    mutex_lock(&shared->cache_lock)                  ev lock
                    ret == OK ? cache_insert : cache_discard         ev insert / ev discard
                    mutex_unlock(&shared->cache_lock)                ev unlock
 read_locked:       memcpy(buffer, pio.chunk.data + off, partlen)    ev copy
                    put_page(&pio)  → cache_put_page → cache_put_entry: --entry->refcnt
                       repaired code: under cache_lock               ev lock, put, unlock
                       code as found: NO lock, a non-atomic
                       read-modify-write                              ev load, ev store
                    (loop for the next page)
                   rwlock_unlock(&shared->lock)                      ev rdunlock
attribute writer:  rwlock_wrlock … rwlock_unlock                     ev wrlock / wrunlock
```

Which lock is held at which cache operation (`needLock`) is the table transcribed from
`read.c` (get/insert/discard under `cache_lock`), `fcache.c` + the format handlers
(file-cache get/insert/discard always inside a `cache_lock` section of the caller) and
`cache_put_page`/`fcache_put_chunk` (the reference drop: see `Cfg.lockedPut`).

Buffer contents are abstracted to a tag per buffer: `some k` = "holds the complete page
with key `k`", `none` = anything else (stale mix).  A fill for key `k` writes only bytes
of page `k` (trusted: the fill routines are deterministic functions of the file), hence a
complete fill sets the tag to `some k`, and a failed (partial) fill leaves `some k` alone
and turns every other tag into `none`.

External behaviour is a parameter: the schedule (which thread moves), the key of every
lookup and the outcome of every fill come with the event.
-/
namespace Kdf.Model.Conc
open Kdf.Model.Cache

/-- Program counter of one thread.  `e` is the cache entry the thread holds a counted
reference to. -/
inductive Pc
  | idle                              -- outside the library
  | writing                           -- holds shared->lock for writing (attribute write)
  | inRead                            -- holds shared->lock for reading
  | locked1                           -- + cache_lock, no entry
  | hitL (e : Nat)                    -- + cache_lock, valid entry `e`; next: unlock, copy
  | missL (e : Nat)                   -- + cache_lock, in-flight entry `e`; next: unlock, fill
  | fill (e : Nat)                    -- filling `e`, cache_lock not held
  | fillL (e : Nat)                   -- filling `e`, inside a file-cache critical section
  | filled (e : Nat) (ok : Bool)      -- fill routine returned; next: lock
  | locked2 (e : Nat) (ok : Bool)     -- + cache_lock; next: insert (ok) / discard (¬ok)
  | copy (e : Nat)                    -- memcpy out of the buffer of `e`
  | put0 (e : Nat)                    -- about to drop the reference
  | putL (e : Nat)                    -- + cache_lock (repaired code); next: --refcnt
  | putU (e : Nat) (tmp : Nat)        -- unlocked --refcnt: value loaded, not yet stored
  deriving DecidableEq, Repr, Inhabited

/-- the entry on which the thread holds a reference that `refcnt` must account for -/
def Pc.holds : Pc → Option Nat
  | .hitL e | .missL e | .fill e | .fillL e | .filled e _ | .locked2 e _
  | .copy e | .put0 e | .putL e | .putU e _ => some e
  | _ => none

/-- the thread is inside a `cache_lock` critical section -/
def Pc.hasLock : Pc → Bool
  | .locked1 | .hitL _ | .missL _ | .fillL _ | .locked2 _ _ | .putL _ => true
  | _ => false

structure Thread where
  pc : Pc
  key : Nat                 -- key of the current lookup
  dat : Option Nat          -- `pio->chunk.data = entry->data`, saved after the lookup
  bad : Bool                -- some copy of this thread read a buffer not holding its page
  deriving DecidableEq, Repr, Inhabited

structure State where
  cache : Cache
  buf : List (Option Nat)   -- content tag of every buffer
  lock : Option Nat         -- owner of cache_lock
  readers : Nat             -- read holders of shared->lock
  writer : Option Nat       -- write holder of shared->lock
  thr : List Thread
  deriving DecidableEq, Repr, Inhabited

structure Cfg where
  /-- `cache_put_page` drops the reference under `cache_lock` (repaired code) or with an
  unlocked non-atomic `--refcnt` (code as found) -/
  lockedPut : Bool
  deriving DecidableEq, Repr

inductive Ev
  | rdlock | rdunlock | wrlock | wrunlock
  | lock | unlock
  | get (k : Nat)
  | fillEnd (ok : Bool)
  | insert | discard
  | copy
  | put                    -- `--refcnt` under the lock
  | load | store           -- the two halves of an unlocked `--refcnt`
  deriving DecidableEq, Repr, Inhabited

/-- The lock table: operations on the cache bookkeeping that the library performs under
`cache_lock`.  (`load`/`store` exist only in the unrepaired code.) -/
def needLock : Ev → Bool
  | .get _ | .insert | .discard | .put => true
  | _ => false

inductive Res
  | ok (s : State)
  | blocked                 -- the lock is taken: the thread waits
  | refused                 -- the event is not a step of the protocol at this pc
  | err (e : Err)           -- the cache model reports undefined behaviour / misuse
  deriving DecidableEq, Repr, Inhabited

def init (cap n : Nat) : State :=
  { cache := flush cap, buf := List.replicate cap none, lock := none, readers := 0,
    writer := none, thr := List.replicate n ⟨.idle, 0, none, false⟩ }

def State.thread (s : State) (t : Nat) : Thread := s.thr.getD t default

def State.setPc (s : State) (t : Nat) (pc : Pc) : State :=
  { s with thr := s.thr.modify t fun x => { x with pc := pc } }

/-- `unsigned` decrement -/
def decU32 (x : Nat) : Nat := if x = 0 then 2^32 - 1 else x - 1

/-- content tag after a fill for key `k` into buffer `d` -/
def fillBuf (buf : List (Option Nat)) (d k : Nat) (ok : Bool) : List (Option Nat) :=
  buf.modify d fun old => if ok then some k else if old = some k then some k else none

/-- the fill routine of thread `t` (key `k`) writes the buffer `pio->chunk.data` -/
def doFill (s : State) (t : Nat) (ok : Bool) (pc : Pc) : Res :=
  match (s.thread t).dat with
  | none => .err (.ub "fill through a null buffer pointer")
  | some d => .ok ({ s with buf := fillBuf s.buf d (s.thread t).key ok }.setPc t pc)

/-- `memcpy` out of the buffer `pio.chunk.data`; `e` is the entry the thread holds -/
def doCopy (s : State) (t e : Nat) : Res :=
  match (s.thread t).dat with
  | none => .err (.ub "copy through a null buffer pointer")
  | some d =>
    let good := s.buf.getD d none = some (s.thread t).key
    .ok { s with thr := s.thr.modify t fun x => { x with pc := .put0 e, bad := x.bad || !good } }

/-- One step of thread `t`. -/
def step (cfg : Cfg) (s : State) (t : Nat) (ev : Ev) : Res :=
  if t ≥ s.thr.length then .refused else
  let th := s.thread t
  let acquire (pc : Pc) : Res :=
    if s.lock.isSome then .blocked else .ok ({ s with lock := some t }.setPc t pc)
  let release (pc : Pc) : Res := .ok ({ s with lock := none }.setPc t pc)
  match th.pc, ev with
  | .idle, .rdlock =>
    if s.writer.isSome then .blocked else .ok ({ s with readers := s.readers + 1 }.setPc t .inRead)
  | .idle, .wrlock =>
    if s.writer.isSome ∨ s.readers ≠ 0 then .blocked else .ok ({ s with writer := some t }.setPc t .writing)
  | .writing, .wrunlock => .ok ({ s with writer := none }.setPc t .idle)
  | .inRead, .rdunlock => .ok ({ s with readers := s.readers - 1 }.setPc t .idle)
  | .inRead, .lock => acquire .locked1
  | .locked1, .unlock => release .inRead
  | .locked1, .get k =>
    match get s.cache k with
    | .error e => .err e
    | .ok (c', .busy) => .ok { s with cache := c', thr := s.thr.modify t fun x => { x with key := k } }
    | .ok (c', .entry e true) =>
      .ok { s with cache := c', thr := s.thr.modify t fun x => { x with key := k, dat := c'.dataOf e, pc := .hitL e } }
    | .ok (c', .entry e false) =>
      .ok { s with cache := c', thr := s.thr.modify t fun x => { x with key := k, dat := c'.dataOf e, pc := .missL e } }
    | .ok (_, .done) => .refused
  | .hitL e, .unlock => release (.copy e)
  | .missL e, .unlock => release (.fill e)
  | .missL e, .fillEnd ok => doFill s t ok (.locked2 e ok)     -- a fill that keeps the lock
  | .fill e, .lock => acquire (.fillL e)
  | .fillL e, .unlock => release (.fill e)
  | .fill e, .fillEnd ok => doFill s t ok (.filled e ok)
  | .fill e, .copy =>          -- as found, `cache_entry_valid(entry)` was tested after the unlock (repaired: under the lock)
    if (s.cache.ent e).state = .valid then doCopy s t e else .refused
  | .filled e ok, .lock => acquire (.locked2 e ok)
  | .locked2 e true, .insert =>
    match insert s.cache e with
    | .error x => .err x
    | .ok (c', _) => .ok ({ s with cache := c' }.setPc t (.hitL e))
  | .locked2 e false, .discard =>
    match discard s.cache e with
    | .error x => .err x
    | .ok (c', _) => .ok ({ s with cache := c' }.setPc t .locked1)
  | .copy e, .copy => doCopy s t e
  | .put0 e, .lock => if cfg.lockedPut then acquire (.putL e) else .refused
  | .putL e, .put =>
    match put s.cache e with
    | .error x => .err x
    | .ok (c', _) => .ok ({ s with cache := c' }.setPc t .locked1)
  | .put0 e, .load => if cfg.lockedPut then .refused else .ok (s.setPc t (.putU e (s.cache.refcnt e)))
  | .putU e tmp, .store =>
    .ok ({ s with cache := s.cache.modEnt e fun x => { x with refcnt := decU32 tmp } }.setPc t .inRead)
  | _, _ => .refused

/-- run a schedule; stops at the first step that is not `ok` -/
def run (cfg : Cfg) : State → List (Nat × Ev) → Res
  | s, [] => .ok s
  | s, (t, ev) :: rest =>
    match step cfg s t ev with
    | .ok s' => run cfg s' rest
    | r => r

/-- states reachable under some schedule -/
inductive Reach (cfg : Cfg) (cap n : Nat) : State → Prop
  | init : Reach cfg cap n (init cap n)
  | step {s s' : State} {t : Nat} {ev : Ev} : Reach cfg cap n s → step cfg s t ev = .ok s' → Reach cfg cap n s'

/-- number of threads holding a reference to entry `i` -/
def holders (s : State) (i : Nat) : Nat := (s.thr.filter fun th => th.pc.holds = some i).length

/-- number of threads that hold some entry, i.e. reads in flight between get and put -/
def inFlightReads (s : State) : Nat := (s.thr.filter fun th => th.pc.holds.isSome).length

def quiescent (s : State) : Prop := ∀ th ∈ s.thr, th.pc = .idle

instance (s : State) : Decidable (quiescent s) := by unfold quiescent; infer_instance

/-! ### Lock-order graph

Nodes: `shared->lock` (0), `cache_lock` (1), LKCD `pfn_block_mutex` (2).  An edge `(a, b)` means
"`b` is acquired while `a` is held" somewhere in the library.  Transcribed from the sources:
`kdump_read`/`kdump_read_string`/attribute getters take `shared->lock`, then the page/file
cache code takes `cache_lock`; `lkcd_read_page` holds `cache_lock` while `get_page_desc`
takes `pfn_block_mutex`. -/
def lockOrder : List (Nat × Nat) := [(0, 1), (1, 2), (0, 2)]

/-- the edge `lkcd_max_pfn_revalidate` had before the repair (`pfn_block_mutex` → `cache_lock`) -/
def lockOrderAsFound : List (Nat × Nat) := lockOrder ++ [(2, 1)]

/-- `g` has no cycle: there is a rank that strictly increases along every edge
(checked for the ranks `0..nodes`) -/
def acyclicBy (g : List (Nat × Nat)) (rank : Nat → Nat) : Bool := g.all fun (a, b) => rank a < rank b

/-- is there a path of at most `fuel` edges from `a` to `b`? -/
def reaches (g : List (Nat × Nat)) : Nat → Nat → Nat → Bool
  | 0, _, _ => false
  | fuel + 1, a, b => g.any fun (x, y) => x = a ∧ (y = b ∨ reaches g fuel y b)

def hasCycle (g : List (Nat × Nat)) : Bool := g.any fun (a, _) => reaches g g.length a a

end Kdf.Model.Conc
