import Kdf.Model.Pgt
/-!
# Model of `src/addrxlat/ppc64.c` (page-table step function) — C02

Statement-by-statement transcription of `pgt_ppc64_linux_rpn30` →
`pgt_ppc64_linux(step, 30)` and its helpers `is_hugepte_linux`,
`huge_page_linux`, `is_hugepd_linux`, `hugepd_shift`, `huge_pd_linux`.
The code is modelled as it is; nothing is "fixed" (see
`Kdf/Spec/ArchPpc64.lean` for what the format should be).
-/
namespace Kdf.Model.PgtPpc64
open Kdf.Model.Pgt

/-- `ADDRXLAT_KVADDR` -/
def KVADDR : Nat := 2

/-- `mmu_pshift[mmu_psize]` for `mmu_psize < MMU_PAGE_COUNT` (14), else `0U`
(the conditional expression in `hugepd_shift`). -/
def mmuPshift : Nat → Nat
  | 0 => 12      -- MMU_PAGE_4K
  | 1 => 14      -- MMU_PAGE_16K
  | 2 => 16      -- MMU_PAGE_64K
  | 3 => 16      -- MMU_PAGE_64K_AP
  | 4 => 18      -- MMU_PAGE_256K
  | 5 => 20      -- MMU_PAGE_1M
  | 6 => 22      -- MMU_PAGE_4M
  | 7 => 23      -- MMU_PAGE_8M
  | 8 => 24      -- MMU_PAGE_16M
  | 9 => 26      -- MMU_PAGE_64M
  | 10 => 28     -- MMU_PAGE_256M
  | 11 => 30     -- MMU_PAGE_1G
  | 12 => 34     -- MMU_PAGE_16G
  | 13 => 36     -- MMU_PAGE_64G
  | _ => 0       -- mmu_psize >= MMU_PAGE_COUNT

/-- `hugepd_shift(hpde)`: `(hpde & HUGEPD_SHIFT_MASK) >> 2`, `HUGEPD_SHIFT_MASK = 0x3f` -/
def hugepdShift (hpde : Nat) : Nat := mmuPshift (hpde % 2^6 / 2^2)

/-- `is_hugepd_linux(pte)`: `!(pte & PD_HUGE)`, `PD_HUGE = 1 << 63` -/
def isHugepdLinux (pte : Nat) : Bool := !testBit pte 63

/-- `is_hugepte_linux(pte)`: `(pte & HUGE_PTE_MASK) != 0`, `HUGE_PTE_MASK = 0x03` -/
def isHugepteLinux (pte : Nat) : Bool := pte % 2^2 ≠ 0

/-- the loop of `huge_pd_linux`:
`off = 0; i = step->remain; while (--i) { off |= step->idx[i]; off <<= pf->fieldsz[i - 1]; }`
(`i` is the value *before* the pre-decrement; `fuel` bounds the recursion). -/
def hugePdOff (pf : PagingForm) (s : Step) : Nat → Nat → Nat → Nat
  | 0, _, off => off
  | fuel+1, i, off =>
    let i := i - 1
    if i ≠ 0 then hugePdOff pf s fuel i (((off ||| idxAt s i) * 2^(fieldAt pf (i - 1))) % W)
    else off

/-- `huge_pd_linux(step, pte)` -/
def hugePdLinux (pf : PagingForm) (s : Step) (pte : Nat) : Except XStatus Step :=
  let pdshift := hugepdShift pte
  if pdshift = 0 then .error .invalid
  else
    -- step->base.addr = (pte & ~HUGEPD_SHIFT_MASK) | PD_HUGE;  step->base.as = ADDRXLAT_KVADDR;
    let s := { s with base := ⟨clearLow pte 6 ||| 2^63, KVADDR⟩ }
    let off := hugePdOff pf s s.remain s.remain 0
    -- step->idx[1] = off >> pdshift;
    let s := setIdx s 1 (off / 2^pdshift)
    -- off &= ((addrxlat_addr_t)1 << pdshift) - 1;  step->idx[0] |= off;
    let s := setIdx s 0 (idxAt s 0 ||| off % 2^pdshift)
    .ok { s with remain := 2 }

/-- `huge_page_linux(step, pte, rpn_shift)` -/
def hugePageLinux (t : Nat) (pf : PagingForm) (s : Step) (pte rpnShift : Nat) : Step :=
  hugePage pf { s with base := ⟨(pte / 2^rpnShift * 2^(fieldAt pf 0)) % W, t⟩ }

/-- `pgt_ppc64_linux(step, rpn_shift)` -/
def pgtPpc64Linux (rpnShift : Nat) (mem : Mem) (t pteMask : Nat) (pf : PagingForm) (s : Step) :
    Except XStatus Step := do
  let (s, pte) ← readPte mem 8 pteMask s
  if pte = 0 then throw .notpresent
  if s.remain > 1 then
    if isHugepteLinux pte then pure (hugePageLinux t pf s pte rpnShift)
    else if isHugepdLinux pte then hugePdLinux pf s pte
    else
      -- table_size = 1 << PTE_SHIFT << fieldsz[remain - 1];  PTE_SHIFT = 3
      -- step->base.addr = pte & ~(table_size - 1);
      pure { s with base := ⟨clearLow pte (3 + fieldAt pf (s.remain - 1)), KVADDR⟩ }
  else
    pure { s with base := ⟨(pte / 2^rpnShift * 2^(fieldAt pf 0)) % W, t⟩, elemsz := 1 }

/-- `pgt_ppc64_linux_rpn30` -/
def pgtPpc64LinuxRpn30 (mem : Mem) (t pteMask : Nat) (pf : PagingForm) (s : Step) : Except XStatus Step :=
  pgtPpc64Linux 30 mem t pteMask pf s

end Kdf.Model.PgtPpc64
