import Kdf.Model.Pgt
import Kdf.Model.Map
/-!
# Model of the translation-system interpreter (`src/addrxlat/sys.c`:
`addrxlat_op`, `do_op`, the chain tables, `map_expect_as`,
`addrxlat_fulladdr_conv`) and of the read path of `src/addrxlat/ctx.c`
(`read32`/`read64` recursing into `internal_op` with the read capabilities) — C09

A system is five optional range maps (the C10 model) plus the sixteen method
slots (the C02 model).  `op` follows `addrxlat_op` statement by statement:

* pass-through when the source address space is in `caps`,
* the "No suitable capabilities", "No translation system" and
  "Unrecognized address space" exits (in that order),
* chain selection,
* the nesting limit `MAX_INFLIGHT` (the `fix:` commit "bound the nesting of
  in-flight translations"): the C code counts the in-flight list; the model
  carries the remaining budget `fuel = MAX_INFLIGHT - length(in-flight list)`,
  on which the recursion is structural,
* the exact `(addr, as, chain)` in-flight guard,
* `do_op`: for every alternative of every chain element the `map_expect_as`
  test, the NULL map test, `map_search`, the linear shortcut, `walk`, the
  capability test on the result, `break` to the next chain element with the
  new address, fall-through to the next alternative exactly on NOMETH/NODATA,
  every other status returned.

The memory seen by `walk` is the closure `readMem`: an address in a readable
space is read directly (`pm`, i.e. `do_read32/64` through `get_cache_buf`,
whose cache is transparent for a deterministic `get_page`), anything else
recurses into `op` with `caps := readCaps` and reads at the address handed to
the callback (`read32_op`/`read64_op`).

`ADDRXLAT_CAPS(as)` is modelled after its `fix:` commit: an address space that
is not 0, 1 or 2 (in particular `NOADDR`, 3 in this model) has no bit.

An index outside `sys->meth[]` / `sys->map[]` is the distinguished result
`oob`, never a default.  A nested `oob` has no representation in the `Mem`
type of the C02 model; it is turned into `invalid` there, and
`Kdf.Props.C09.op_no_oob` shows that this branch is dead for every well-formed
system (all that `addrxlat_sys_set_meth`/`addrxlat_map_set` with valid method
indices can build).

Not modelled: error messages, `ADDRXLAT_CUSTOM` methods, the PTE formats of
`Kdf/Model/PgtArch.lean` (they answer `notimpl` here), a `get_page` callback
that re-enters the library.
-/
namespace Kdf.Model.Sys
open Kdf.Model.Pgt

abbrev KPHYS : Nat := 0
abbrev MACHPHYS : Nat := 1
abbrev KV : Nat := 2

/-- `MAX_INFLIGHT` of sys.c -/
abbrev MAX_INFLIGHT : Nat := 16

/-- `caps & ADDRXLAT_CAPS(as)` -/
def capsHas (caps as : Nat) : Bool := decide (as < 3) && (caps / 2^as % 2 == 1)

/-- `ADDRXLAT_CAPS(as)` -/
def capsOf (as : Nat) : Nat := if as < 3 then 2^as else 0

/-- map indices: 0 HW, 1 KV_PHYS, 2 KPHYS_DIRECT, 3 MACHPHYS_KPHYS, 4 KPHYS_MACHPHYS -/
inductive Chain | kv2phys | kphys2machphys | kphys2direct | kphys2any | machphys2direct
  deriving DecidableEq, Repr, Inhabited

/-- the `struct xlat_chain` tables: chain elements, each a list of alternatives -/
def Chain.alts : Chain → List (List Nat)
  | .kv2phys => [[1, 0], [3, 4]]
  | .kphys2machphys => [[4]]
  | .kphys2direct => [[2]]
  | .kphys2any => [[4, 2]]
  | .machphys2direct => [[3], [2]]

/-- `map_expect_as[]` -/
def mapExpectAs : Nat → Nat
  | 0 => KV | 1 => KV | 2 => KPHYS | 3 => MACHPHYS | 4 => KPHYS | _ => NOADDR

/-- the `switch (paddr->as)` of `addrxlat_op` -/
def chainOf (caps as : Nat) : Option Chain :=
  if as = KV then some .kv2phys
  else if as = KPHYS then
    some (if capsHas caps MACHPHYS then (if capsHas caps KV then .kphys2any else .kphys2machphys)
          else .kphys2direct)
  else if as = MACHPHYS then some .machphys2direct
  else none

structure Sys where
  maps : List (Option Map.Map)      -- `sys->map[ADDRXLAT_SYS_MAP_NUM]`, `none` = NULL
  meths : List Meth                 -- `sys->meth[ADDRXLAT_SYS_METH_NUM]`
  deriving Repr, Inhabited

/-- `&sys->meth[methidx]` -/
def methAt (sys : Sys) (idx : Int) : Option Meth :=
  if idx < 0 then none else sys.meths[idx.toNat]?

inductive OpRes
  | call (fa : FullAddr)     -- `return ctl->op(ctl->data, &fa)`: the callback runs, its status is returned
  | fail (st : XStatus)      -- returned without running the callback
  | oob                      -- access outside `sys->meth[]` / `sys->map[]`
  deriving DecidableEq, Repr, Inhabited

/-- outcome of the inner `for (j …)` loop of `do_op` -/
inductive AltRes
  | done (r : OpRes)         -- `return`
  | next (a : FullAddr)      -- `break` with `paddr` updated, or loop finished with `paddr` unchanged
  deriving DecidableEq, Repr, Inhabited

abbrev WalkFn := Meth → Nat → Except XStatus Step

/-- inner loop of `do_op` over the alternatives of one chain element -/
def tryAlt (sys : Sys) (caps : Nat) (wk : WalkFn) : List Nat → FullAddr → AltRes
  | [], a => .next a
  | mi :: ms, a =>
    if a.as ≠ mapExpectAs mi then tryAlt sys caps wk ms a
    else match sys.maps[mi]? with
      | none => .done .oob
      | some none => tryAlt sys caps wk ms a
      | some (some m) =>
        let idx := Map.mapSearch m a.addr
        if idx = Map.NONE then tryAlt sys caps wk ms a
        else match methAt sys idx with
          | none => .done .oob
          | some (.linear t off) =>
            let lb : FullAddr := ⟨(a.addr + off) % W, t⟩
            if capsHas caps t then .done (.call lb) else .next lb
          | some meth =>
            match wk meth a.addr with
            | .ok s => if capsHas caps s.base.as then .done (.call s.base) else .next s.base
            | .error e =>
              if e = .nometh ∨ e = .nodata then tryAlt sys caps wk ms a
              else .done (.fail e)

/-- outer loop of `do_op` -/
def doOp (sys : Sys) (caps : Nat) (wk : WalkFn) : List (List Nat) → FullAddr → OpRes
  | [], _ => .fail .nometh                       -- "No way to translate"
  | alt :: rest, a =>
    match tryAlt sys caps wk alt a with
    | .done r => r
    | .next a' => doOp sys caps wk rest a'

structure Cfg where
  sys : Option Sys          -- `ctl->sys`, `none` = NULL
  readCaps : Nat            -- what the `read_caps` callback answers
  pm : Mem                  -- `do_read32`/`do_read64` on a directly readable address

/-- the tests of `addrxlat_op` before the in-flight list is consulted:
`error r` = early return -/
def pre (c : Cfg) (caps : Nat) (a : FullAddr) : Except OpRes (Sys × Chain) :=
  if capsHas caps a.as then .error (.call a)
  else if caps % 8 = 0 then .error (.fail .nometh)         -- "No suitable capabilities"
  else match c.sys with
    | none => .error (.fail .nometh)                       -- "No translation system"
    | some sys =>
      match chainOf caps a.as with
      | none => .error (.fail .notimpl)                    -- "Unrecognized address space"
      | some ch => .ok (sys, ch)

/-- what `read32`/`read64` make of a nested `internal_op` -/
def nestedRead (pm : Mem) (size : Nat) : OpRes → Except XStatus Nat
  | .call fa => pm fa.as fa.addr size
  | .fail e => .error e
  | .oob => .error .invalid          -- dead for well-formed systems (`op_no_oob`)

/-- `no extra PTE formats`: only the formats of `Kdf/Model/Pgt.lean` -/
def noExtra : Extra := fun _ _ _ _ _ => none

/-- `addrxlat_op`; `fuel` = `MAX_INFLIGHT` minus the length of `ctx->inflight`,
`infl` = the in-flight list. -/
def op (c : Cfg) : Nat → Nat → List (FullAddr × Chain) → FullAddr → OpRes
  | 0, caps, _, a =>
    match pre c caps a with
    | .error r => r
    | .ok _ => .fail .notimpl                              -- "Too many nested translations"
  | fuel+1, caps, infl, a =>
    match pre c caps a with
    | .error r => r
    | .ok (sys, ch) =>
      if infl.contains (a, ch) then .fail .nometh          -- "Infinite recursion loop"
      else
        let mem : Mem := fun as addr size =>
          if capsHas c.readCaps as then c.pm as addr size
          else nestedRead c.pm size (op c fuel c.readCaps ((a, ch) :: infl) ⟨addr, as⟩)
        doOp sys caps (walk noExtra mem) ch.alts a

/-- `addrxlat_op` called from outside (empty in-flight list) -/
def opTop (c : Cfg) (caps : Nat) (a : FullAddr) : OpRes := op c MAX_INFLIGHT caps [] a

/-- status returned by `addrxlat_op` when the callback answers `cbst` -/
def OpRes.status (cbst : XStatus) : OpRes → Option XStatus
  | .call _ => some cbst
  | .fail e => some e
  | .oob => none

/-- the addresses the callback was invoked with -/
def OpRes.calls : OpRes → List FullAddr
  | .call fa => [fa]
  | _ => []

/-- `addrxlat_fulladdr_conv`: the callback is `storeaddr` (returns OK);
result = status and the content of `*faddr` afterwards -/
def conv (c : Cfg) (target : Nat) (a : FullAddr) : Option (XStatus × FullAddr) :=
  match opTop c (capsOf target) a with
  | .call fa => some (.ok, fa)
  | .fail e => some (e, a)
  | .oob => none

end Kdf.Model.Sys
