import Kdf.Model.Pgt
import Kdf.Model.Map
import Kdf.Model.Sys
/-!
# Model of the generic layout machinery of `src/addrxlat/sys.c` — C08

`sys_set_layout`, the region actions `act_direct`, `act_rdirect`,
`act_ident_kphys`, `act_ident_machphys`, and `sys_set_physmaps`.

A translation system is the C09 structure (`Kdf.Model.Sys.Sys`: five optional
maps, sixteen method slots) plus `offs`: what the eight bytes of
`meth[i].param.linear.off` currently hold.  The C code reads and writes that
union member without looking at `kind` (`act_rdirect` negates the offset of
the DIRECT slot whatever its kind is; `linux_rdirect_map` of x86_64.c stores an
offset into a slot whose kind is still NOMETH), so the model keeps it apart:
`some v` = last written through `linear.off` (a fresh `calloc`ed system holds
`some 0` everywhere), `none` = the bytes belong to another member of the union
(a read is the distinguished result `undef`, never a default).

Method slot numbers (`addrxlat_sys_meth_t`): 0 PGT, 1 UPGT, 2 DIRECT, 3 KTEXT,
4 VMEMMAP, 5 RDIRECT, 6 MACHPHYS_KPHYS, 7 KPHYS_MACHPHYS, 8.. CUSTOM, 16 = NUM
(the end marker of a layout table).  Map numbers: 0 HW, 1 KV_PHYS,
2 KPHYS_DIRECT, 3 MACHPHYS_KPHYS, 4 KPHYS_MACHPHYS.

Allocation: `alloc` says whether `internal_map_new` / the `realloc` inside
`map_set` succeed (one answer for the whole call; C18 owns the n-th-failure
schedules).
-/
namespace Kdf.Model.Layout
open Kdf.Model.Pgt Kdf.Model.Sys

abbrev M_PGT : Nat := 0
abbrev M_DIRECT : Nat := 2
abbrev M_KTEXT : Nat := 3
abbrev M_RDIRECT : Nat := 5
abbrev M_MACHPHYS_KPHYS : Nat := 6
abbrev M_KPHYS_MACHPHYS : Nat := 7
abbrev METH_NUM : Nat := 16
abbrev MAP_HW : Nat := 0
abbrev MAP_KV_PHYS : Nat := 1
abbrev MAP_KPHYS_DIRECT : Nat := 2
abbrev MAP_MACHPHYS_KPHYS : Nat := 3
abbrev MAP_KPHYS_MACHPHYS : Nat := 4

/-- `enum sys_action` -/
inductive Act | none | direct | rdirect | identKphys | identMachphys
  deriving DecidableEq, Repr, Inhabited

/-- `struct sys_region` (the end marker is the end of the list) -/
structure Region where
  first : Nat
  last : Nat
  meth : Nat
  act : Act
  deriving DecidableEq, Repr, Inhabited

/-- the system under construction -/
structure LSys where
  sys : Sys
  offs : List (Option Nat)
  deriving Repr, Inhabited

/-- a `calloc`ed `addrxlat_sys_t` -/
def fresh : LSys := ⟨⟨List.replicate 5 none, List.replicate 16 .nometh⟩, List.replicate 16 (some 0)⟩

inductive St | ok | nomem | oob | undef
  deriving DecidableEq, Repr, Inhabited

/-- `meth->kind = LINEAR; meth->target_as = t; meth->param.linear.off = off` -/
def setLinear (s : LSys) (slot t off : Nat) : Option LSys :=
  if slot < s.sys.meths.length ∧ slot < s.offs.length then
    some { sys := { s.sys with meths := s.sys.meths.set slot (.linear t off) },
           offs := s.offs.set slot (some off) }
  else none

/-- `sys->meth[slot] = m` for a non-linear method (the offset bytes are overwritten) -/
def setMeth (s : LSys) (slot : Nat) (m : Meth) : Option LSys :=
  if slot < s.sys.meths.length ∧ slot < s.offs.length then
    match m with
    | .linear t off => setLinear s slot t off
    | _ => some { sys := { s.sys with meths := s.sys.meths.set slot m }, offs := s.offs.set slot none }
  else none

/-- `sys->meth[slot].param.linear.off = off` without touching `kind` -/
def setOffOnly (s : LSys) (slot off : Nat) : Option LSys :=
  match s.sys.meths[slot]? with
  | none => none
  | some (.linear t _) => setLinear s slot t off
  | some _ => if slot < s.offs.length then some { s with offs := s.offs.set slot (some off) } else none

/-- the map update at the end of every loop iteration of `sys_set_layout` -/
def mapSetAt (s : LSys) (idx : Nat) (first : Nat) (r : Map.Range) (alloc : Bool) : St × LSys :=
  match s.sys.maps[idx]? with
  | none => (.oob, s)
  | some none => (.oob, s)                      -- the map was created before the loop
  | some (some m) =>
    match Map.mapSet m first r alloc with
    | (.ok, m') => (.ok, { s with sys := { s.sys with maps := s.sys.maps.set idx (some m') } })
    | (.nomem, _) => (.nomem, s)
    | (.oob, _) => (.oob, s)

/-- `if (!map) { map = internal_map_new(); … }` -/
def ensureMap (s : LSys) (idx : Nat) (alloc : Bool) : St × LSys :=
  match s.sys.maps[idx]? with
  | none => (.oob, s)
  | some (some _) => (.ok, s)
  | some none =>
    if alloc then (.ok, { s with sys := { s.sys with maps := s.sys.maps.set idx (some []) } })
    else (.nomem, s)

/-- `act_rdirect` -/
def actRdirect (s : LSys) (rg : Region) : St × LSys :=
  match s.offs[M_DIRECT]? with
  | none => (.oob, s)
  | some none => (.undef, s)
  | some (some doff) =>
    match setLinear s rg.meth KV ((W - doff) % W) with
    | some s' => (.ok, s')
    | none => (.oob, s)

/-- `act_ident_kphys` / `act_ident_machphys` -/
def actIdent (s : LSys) (rg : Region) (t : Nat) : St × LSys :=
  match setLinear s rg.meth t 0 with
  | some s' => (.ok, s')
  | none => (.oob, s)

/-- the loop of `sys_set_layout`; `direct` is what `case SYS_ACT_DIRECT` does -/
def layoutLoop (direct : LSys → Region → St × LSys) (alloc : Bool) (idx : Nat) :
    List Region → LSys → St × LSys
  | [], s => (.ok, s)
  | rg :: rest, s =>
    let r : Map.Range := ⟨(rg.last + W - rg.first) % W, (rg.meth : Int)⟩
    let acted : St × LSys :=
      match rg.act with
      | .direct => direct s rg
      | .rdirect => actRdirect s rg
      | .identKphys => actIdent s rg KPHYS
      | .identMachphys => actIdent s rg MACHPHYS
      | .none => (.ok, s)
    match acted with
    | (.ok, s1) =>
      match mapSetAt s1 idx rg.first r alloc with
      | (.ok, s2) => layoutLoop direct alloc idx rest s2
      | bad => bad
    | bad => bad

/-- `sys_set_layout` with a given meaning of `SYS_ACT_DIRECT` -/
def setLayoutWith (direct : LSys → Region → St × LSys) (alloc : Bool) (s : LSys) (idx : Nat)
    (layout : List Region) : St × LSys :=
  match ensureMap s idx alloc with
  | (.ok, s1) => layoutLoop direct alloc idx layout s1
  | bad => bad

/-- the nested `sys_set_layout` call of `act_direct`: its one region has the
action RDIRECT, so `SYS_ACT_DIRECT` cannot occur in it -/
def setLayoutInner (alloc : Bool) (s : LSys) (idx : Nat) (layout : List Region) : St × LSys :=
  setLayoutWith (fun s _ => (.undef, s)) alloc s idx layout

/-- `act_direct` -/
def actDirect (alloc : Bool) (s : LSys) (rg : Region) : St × LSys :=
  match setLinear s rg.meth KPHYS ((W - rg.first) % W) with
  | none => (.oob, s)
  | some s1 =>
    setLayoutInner alloc s1 MAP_KPHYS_DIRECT [⟨0, (rg.last + W - rg.first) % W, M_RDIRECT, .rdirect⟩]

/-- `sys_set_layout` -/
def setLayout (alloc : Bool) (s : LSys) (idx : Nat) (layout : List Region) : St × LSys :=
  setLayoutWith (actDirect alloc) alloc s idx layout

/-- `sys_set_physmaps` -/
def setPhysmaps (alloc : Bool) (s : LSys) (maxaddr : Nat) : St × LSys :=
  match setLayout alloc s MAP_MACHPHYS_KPHYS [⟨0, maxaddr, M_MACHPHYS_KPHYS, .identKphys⟩] with
  | (.ok, s1) => setLayout alloc s1 MAP_KPHYS_MACHPHYS [⟨0, maxaddr, M_KPHYS_MACHPHYS, .identMachphys⟩]
  | bad => bad

end Kdf.Model.Layout
