import Kdf.Model.Map
import Kdf.Model.Pfn
/-!
# Model of flattened files (`src/kdumpfile/flatmap.c`) and of the split-file
descriptor lookup (`diskdump_read_page`, `find_pfn_file_map`, `sort_pfn_file_maps`) — C11

The flattened file is a parameter `f : File` (byte at a position; zero past the
end of the file, which is what `fcache.c` delivers under the default mmap
policy).  File positions (`off_t`) are `Nat`; the differences stored in
`offs[]` are `Int`.  The segment map is the C10 model of `addrxlat_map_t`
(`Kdf.Model.Map`), driven through `mapSet` exactly like `flatmap_file_init`
drives `addrxlat_map_set`.  An index outside `offs[]` is the distinguished
error `oob`, a negative flattened position is `neg`, a signed overflow of
`flatpos` is `ub` — never a default value.

Not modelled: allocation failure (`realloc`/`malloc` succeed), I/O errors of
`fcache_pread`/`fcache_get_chunk` (the file is a total function), the cache
entries behind a chunk (only its bytes).
-/
namespace Kdf.Model.Flat
open Kdf.Model.Map

abbrev File := Nat → Nat

/-- `MDF_HEADER_SIZE` -/
abbrev HDR : Nat := 4096
/-- `sizeof(struct makedumpfile_data_header)` -/
abbrev RECHDR : Nat := 16
/-- `off_t` / `int64_t` limit -/
abbrev S63 : Nat := 2^63

/-- big-endian number made of the `n` bytes at `p` -/
def beN (f : File) (p : Nat) : Nat → Nat
  | 0 => 0
  | n+1 => beN f p n * 256 + f (p + n) % 256

/-- `be64toh` of the 8 bytes at `p`, as an unsigned number -/
def be64 (f : File) (p : Nat) : Nat := beN f p 8

/-- reinterpretation as `int64_t` -/
def toS64 (x : Nat) : Int := if x < S63 then (x : Int) else (x : Int) - (W : Int)

inductive Status | ok | corrupt | notimpl | system | eof
  deriving DecidableEq, Repr, Inhabited

/-- state of the scan loop of `flatmap_file_init` (`segidx = offs.length`) -/
structure Scan where
  map : Map
  offs : List Int
  flatpos : Nat
  deriving Repr, DecidableEq

inductive ScanRes
  | ok (s : Scan)
  | err (st : Status) (flatpos : Nat)
  | ub            -- `flatpos += size` leaves the range of `off_t`
  | oob           -- the map model reported an out-of-bounds access
  | fuel          -- iteration bound of the model exhausted
  deriving Repr, DecidableEq

/-- the `for (;;)` loop of `flatmap_file_init` -/
def scan (f : File) : Nat → Scan → ScanRes
  | 0, _ => .fuel
  | fuel+1, s =>
    let pos := toS64 (be64 f s.flatpos)
    if pos = -1 then .ok s                                  -- MDF_OFFSET_END_FLAG
    else if pos < 0 then .err .corrupt s.flatpos
    else
      let size := toS64 (be64 f (s.flatpos + 8))
      if size ≤ 0 then .err .corrupt s.flatpos
      else
        let dpos := s.flatpos + RECHDR                        -- flatpos += sizeof(hdr)
        let off : Int := (dpos : Int) - pos                   -- flatoffs[segidx] = flatpos - pos
        match mapSet s.map pos.toNat ⟨size.toNat - 1, (s.offs.length : Int)⟩ true with
        | (.ok, m') =>
          if dpos + size.toNat ≥ S63 then .ub                 -- flatpos += size
          else scan f fuel ⟨m', s.offs ++ [off], dpos + size.toNat⟩
        | (.nomem, _) => .err .system s.flatpos               -- unreachable: allocation succeeds
        | (.oob, _) => .oob

/-- `fcache_pread` of the 16-byte record header at `p` from a regular file of `fsz` bytes: the read(2) path refuses a
    cache block (4096 bytes) that lies wholly behind the end of the file, except block 0 (`fcache_get_read`); the blocks
    a header touches are consecutive, so the last one decides. -/
def hdrBehindEof (fsz p : Nat) : Bool :=
  let b := (p + RECHDR - 1) / 4096 * 4096
  decide (0 < b ∧ fsz ≤ b)

/-- `scan` on a regular file of `fsz` bytes: a record header that cannot be read ends the scan with `KDUMP_ERR_EOF`
    (a stream without end marker); everything else is `scan`. -/
def scanE (f : File) (fsz : Nat) : Nat → Scan → ScanRes
  | 0, _ => .fuel
  | fuel+1, s =>
    if hdrBehindEof fsz s.flatpos then .err .eof s.flatpos
    else
    let pos := toS64 (be64 f s.flatpos)
    if pos = -1 then .ok s
    else if pos < 0 then .err .corrupt s.flatpos
    else
      let size := toS64 (be64 f (s.flatpos + 8))
      if size ≤ 0 then .err .corrupt s.flatpos
      else
        let dpos := s.flatpos + RECHDR
        let off : Int := (dpos : Int) - pos
        match mapSet s.map pos.toNat ⟨size.toNat - 1, (s.offs.length : Int)⟩ true with
        | (.ok, m') =>
          if dpos + size.toNat ≥ S63 then .ub
          else scanE f fsz fuel ⟨m', s.offs ++ [off], dpos + size.toNat⟩
        | (.nomem, _) => .err .system s.flatpos
        | (.oob, _) => .oob

/-- `"makedumpfile"` padded with NULs to `MDF_SIG_LEN` -/
def magic : List Nat := [109, 97, 107, 101, 100, 117, 109, 112, 102, 105, 108, 101, 0, 0, 0, 0]

def readFile (f : File) (p n : Nat) : List Nat := (List.range n).map fun i => f (p + i) % 256

inductive Open
  | plain                                   -- no flattened signature: file is used as it is
  | flat (map : Map) (offs : List Int)
  | err (st : Status)
  | ub | oob | fuel
  deriving Repr

/-- per-file part of `flatmap_init` followed by `flatmap_file_init` -/
def flatOpen (f : File) (fuel : Nat) : Open :=
  if readFile f 0 16 ≠ magic then .plain
  else if be64 f 16 ≠ 1 then .err .notimpl          -- MDF_TYPE_FLAT_HEADER
  else if be64 f 24 ≠ 1 then .err .notimpl          -- MDF_VERSION_FLAT_HEADER
  else match scan f fuel ⟨[], [], HDR⟩ with
    | .ok s => .flat s.map s.offs
    | .err st _ => .err st
    | .ub => .ub
    | .oob => .oob
    | .fuel => .fuel

/-- `flatOpen` on a regular file of `fsz` bytes -/
def flatOpenE (f : File) (fsz fuel : Nat) : Open :=
  if readFile f 0 16 ≠ magic then .plain
  else if be64 f 16 ≠ 1 then .err .notimpl
  else if be64 f 24 ≠ 1 then .err .notimpl
  else match scanE f fsz fuel ⟨[], [], HDR⟩ with
    | .ok s => .flat s.map s.offs
    | .err st _ => .err st
    | .ub => .ub
    | .oob => .oob
    | .fuel => .fuel

inductive Err | oob | neg
  deriving DecidableEq, Repr, Inhabited

/-- `offs[meth]` -/
def offAt (offs : List Int) (meth : Int) : Option Int :=
  if meth < 0 then none else offs[meth.toNat]?

/-- `for (off = pos; range < end && off > range->endoff; ++range) off -= range->endoff + 1;`
returns the ranges from `range` on and `off` -/
def skip : Map → Nat → Map × Nat
  | [], off => ([], off)
  | r :: rs, off => if off > r.endoff then skip rs (off - (r.endoff + 1)) else (r :: rs, off)

/-- the `while (range < end && len)` loop of `flatmap_pread_flat` plus the final `memset` -/
def preadLoop (offs : List Int) (f : File) : Map → Nat → Nat → Nat → Except Err (List Nat)
  | [], _, _, len => .ok (List.replicate len 0)
  | r :: rs, off, pos, len =>
    if len = 0 then .ok []
    else
      let seglen0 := (r.endoff + 1 + W - off) % W          -- size_t arithmetic
      let seglen := if seglen0 > len then len else seglen0
      if r.meth ≠ NONE then
        match offAt offs r.meth with
        | none => .error .oob
        | some o =>
          let fp : Int := (pos : Int) + o
          if fp < 0 then .error .neg
          else match preadLoop offs f rs 0 (pos + seglen) (len - seglen) with
            | .ok t => .ok (readFile f fp.toNat seglen ++ t)
            | .error e => .error e
      else match preadLoop offs f rs 0 (pos + seglen) (len - seglen) with
        | .ok t => .ok (List.replicate seglen 0 ++ t)
        | .error e => .error e

/-- `flatmap_pread_flat` -/
def preadFlat (m : Map) (offs : List Int) (f : File) (pos len : Nat) : Except Err (List Nat) :=
  let (rs, off) := skip m pos
  preadLoop offs f rs off pos len

/-- `flatmap_get_chunk_flat` (after the repair: the single-segment fast path is
taken only for a real segment).  `true` = served directly from the file cache. -/
def getChunkFlat (m : Map) (offs : List Int) (f : File) (pos len : Nat) : Except Err (Bool × List Nat) :=
  match skip m pos with
  | (r :: _, off) =>
    if r.meth ≠ NONE ∧ len ≤ (r.endoff + 1 + W - off) % W then
      match offAt offs r.meth with
      | none => .error .oob
      | some o =>
        let fp : Int := (pos : Int) + o
        if fp < 0 then .error .neg else .ok (true, readFile f fp.toNat len)
    else match preadFlat m offs f pos len with
      | .ok d => .ok (false, d)
      | .error e => .error e
  | ([], _) =>
    match preadFlat m offs f pos len with
    | .ok d => .ok (false, d)
    | .error e => .error e

/-! ### Split files -/

open Kdf.Model.Pfn (Region findRegion)

/-- `struct pfn_file_map` -/
structure SFile where
  fidx : Nat
  startPfn : Nat
  endPfn : Nat
  regions : List Region
  deriving Repr, DecidableEq, Inhabited

/-- insertion into a list sorted by `end_pfn` (after equal keys) -/
def insertSorted (x : SFile) : List SFile → List SFile
  | [] => [x]
  | y :: ys => if x.endPfn < y.endPfn then x :: y :: ys else y :: insertSorted x ys

/-- `sort_pfn_file_maps`: `qsort` by `end_pfn` (trusted to sort; the order of
maps with equal `end_pfn` is unspecified in C) -/
def sortFiles : List SFile → List SFile
  | [] => []
  | x :: xs => insertSorted x (sortFiles xs)

/-- `find_pfn_file_map` -/
def findFile : List SFile → Nat → Option SFile
  | [], _ => none
  | m :: ms, pfn => if pfn < m.endPfn then some m else findFile ms pfn

/-- `sizeof(struct page_desc)` -/
abbrev PDSZ : Nat := 24

/-- start of `diskdump_read_page`: which file and which position hold the page
descriptor of `pfn`; `none` = excluded page / out of bounds -/
def pdLookup (maps : List SFile) (maxPfn pfn : Nat) : Option (Nat × Nat) :=
  if pfn ≥ maxPfn then none
  else match findFile maps pfn with
    | none => none
    | some m =>
      if m.startPfn ≤ pfn then
        match findRegion m.regions pfn with                 -- pfn_to_pdpos
        | some r => if pfn ≥ r.pfn then some (m.fidx, r.pos + (pfn - r.pfn) * PDSZ) else none
        | none => none
      else none

/-- where `diskdump_read_page` takes the content of a frame from -/
inductive PageSrc
  | nodata                       -- out of bounds, or excluded while `file.zero_excluded` is off
  | zero                         -- excluded frame delivered as a page of zeroes (`file.zero_excluded` on)
  | desc (fidx pos : Nat)        -- the page descriptor at `pos` of file `fidx`
  deriving Repr, DecidableEq, Inhabited

/-- `diskdump_read_page` up to the descriptor read, with the `file.zero_excluded` option.  A frame for which
`find_pfn_file_map` finds no file at all (behind the last window of the set) is an excluded frame like any other. -/
def readPageSrc (maps : List SFile) (maxPfn : Nat) (zeroExcl : Bool) (pfn : Nat) : PageSrc :=
  if pfn ≥ maxPfn then .nodata
  else match pdLookup maps maxPfn pfn with
    | some (fi, pos) => .desc fi pos
    | none => if zeroExcl then .zero else .nodata

end Kdf.Model.Flat
