/-!
# Model of the read loop (`src/kdumpfile/read.c`) — C12

`readLocked` and `readString` mirror `read_locked` / `read_string_locked` over a
page oracle `pages : as → pageAddr → Except Status bytes` which stands for
`get_page_maybe_xlat` (everything below the loop: translation, cache, format
handler).  Addresses are `Nat` with the C wrap-around written `% W`.
-/
namespace Kdf.Model.Read

abbrev W : Nat := 2^64

/-- `kdump_status` values that a page fetch can produce. -/
inductive Status
  | ok | system | notimpl | nodata | corrupt | invalid | nokey | eof | busy | addrxlat
  deriving DecidableEq, Repr, Inhabited

abbrev Byte := Nat
abbrev Oracle := Nat → Nat → Except Status (List Byte)

/-- `page_align(ctx, addr)`. -/
def pageAlign (ps addr : Nat) : Nat := addr - addr % ps

/-- The `while (remain)` loop of `read_locked`.  `fuel` bounds the number of
iterations (each iteration delivers at least one byte when `ps > 0`). -/
def readLoop (ps : Nat) (pages : Oracle) (as : Nat) : Nat → Nat → Nat → List Byte → Status × List Byte
  | 0, _, _, acc => (.ok, acc)
  | fuel+1, addr, remain, acc =>
    if remain = 0 then (.ok, acc)
    else
      match pages as (pageAlign ps addr) with
      | .error e => (e, acc)
      | .ok data =>
        let off := addr % ps
        let partlen := min (ps - off) remain
        readLoop ps pages as fuel ((addr + partlen) % W) (remain - partlen)
          (acc ++ (data.drop off).take partlen)

/-- `read_locked`: returns the status and the delivered bytes; the reported
length (`*plength` on return) is the length of the delivered list. -/
def readLocked (ps : Nat) (pages : Oracle) (as addr len : Nat) : Status × List Byte :=
  readLoop ps pages as len addr len []

/-- Index of the first NUL in a byte list. -/
def findNul : List Byte → Option Nat
  | [] => none
  | b :: bs => if b = 0 then some 0 else (findNul bs).map (· + 1)

/-- The `do … while (!endp)` loop of `read_string_locked`.  `allocOk n` tells
whether the n-th `realloc` succeeds.  Result: status, the string (without its
terminator) on success, and whether a partial buffer was leaked on failure. -/
def strLoop (ps : Nat) (pages : Oracle) (as : Nat) (allocOk : Nat → Bool) :
    Nat → Nat → Nat → List Byte → Status × Option (List Byte)
  | 0, _, _, _ => (.system, none)          -- fuel exhausted: no NUL in the whole address space
  | fuel+1, addr, iter, acc =>
    match pages as (pageAlign ps addr) with
    | .error e => (e, none)
    | .ok data =>
      let off := addr % ps
      let chunk := (data.drop off).take (ps - off)
      match findNul chunk with
      | some k =>
        if allocOk iter then (.ok, some (acc ++ chunk.take k)) else (.system, none)
      | none =>
        if allocOk iter then
          strLoop ps pages as allocOk fuel ((addr + (ps - off)) % W) (iter+1) (acc ++ chunk)
        else (.system, none)

def readString (ps : Nat) (pages : Oracle) (as addr : Nat) (allocOk : Nat → Bool) (fuel : Nat) :
    Status × Option (List Byte) :=
  strLoop ps pages as allocOk fuel addr 0 []

/-- `read_locked` as the API sees it, including the state "the page size is not known"
(`get_page_size(ctx) == 0`, written `ps = 0`): a non-empty read then fails with
`KDUMP_ERR_INVALID` *and resets the reported length to zero*; an empty read succeeds. -/
def readApi (ps : Nat) (pages : Oracle) (as addr len : Nat) : Status × List Byte :=
  if len ≠ 0 ∧ ps = 0 then (.invalid, []) else readLocked ps pages as addr len

/-- `read_string_locked` as the API sees it: without a page size it fails before any page is fetched. -/
def readStringApi (ps : Nat) (pages : Oracle) (as addr : Nat) (allocOk : Nat → Bool) (fuel : Nat) :
    Status × Option (List Byte) :=
  if ps = 0 then (.invalid, none) else readString ps pages as addr allocOk fuel

end Kdf.Model.Read
