/-!
# Model of single-method address translation (`src/addrxlat/step.c` and the
per-architecture `pgt_*` functions) — C02

`addrxlat_addr_t` is `Nat`, every C operation that can wrap is written `% W`.
Bit fields are arithmetic: `x &&& mask(n) = x % 2^n`, `x >>> k = x / 2^k`.
Memory is a parameter: `mem as addr size` is the value (after byte-order
conversion) of the `size`-byte object at `addr` in address space `as`, or the
status with which the read fails.
-/
namespace Kdf.Model.Pgt

abbrev W : Nat := 2^64
def addrMask (bits : Nat) : Nat := 2^bits - 1          -- ADDR_MASK(bits)
/-- `x & ~mask(n)` on 64-bit values -/
def clearLow (x n : Nat) : Nat := x / 2^n * 2^n
/-- `PTE_VAL(x, shift, bits)` -/
def bits (x shift n : Nat) : Nat := x / 2^shift % 2^n
def testBit (x i : Nat) : Bool := x / 2^i % 2 = 1

inductive XStatus | ok | notimpl | notpresent | invalid | nomem | nodata | nometh | unaligned
  deriving DecidableEq, Repr, Inhabited

/-- address spaces: 0 KPHYSADDR, 1 MACHPHYSADDR, 2 KVADDR, 3 = NOADDR -/
structure FullAddr where
  addr : Nat
  as : Nat
  deriving DecidableEq, Repr, Inhabited

def NOADDR : Nat := 3

inductive PteFormat
  | none | pfn32 | pfn64 | aarch64 | ia32 | ia32Pae | x86_64 | s390x | ppc64LinuxRpn30
  | aarch64Lpa | aarch64Lpa2 | arm | riscv32 | riscv64
  deriving DecidableEq, Repr, Inhabited

structure PagingForm where
  fmt : PteFormat
  fieldsz : List Nat                -- nfields = fieldsz.length (≤ 8)
  deriving DecidableEq, Repr, Inhabited

/-- What the `first_step` callback of an `ADDRXLAT_CUSTOM` method does with one
class of input addresses (the callbacks themselves are user code; the model covers
the family that decides by the address alone):
* `finish as off` — the translation is complete after the first step
  (`step->remain = 0`, `step->base = ⟨addr + off, as⟩`); `addrxlat_walk` then
  returns at once and does **not** overwrite `base.as` with `target_as`;
* `step as off` — one level is left (`remain = 1`, `elemsz = 1`, `idx[0] = addr`,
  `base = ⟨off, as⟩`), as the built-in linear method does; the walk finishes it
  and stores `target_as`;
* `fail st` — the callback returns the error status `st`. -/
inductive CustomArm
  | finish (as off : Nat)
  | step (as off : Nat)
  | fail (st : XStatus)
  deriving DecidableEq, Repr, Inhabited

inductive Meth
  | nometh
  | custom (targetAs : Nat) (mask : Nat) (hit miss : CustomArm)
  | linear (targetAs : Nat) (off : Nat)
  | pgt (targetAs : Nat) (root : FullAddr) (pteMask : Nat) (pf : PagingForm)
  | lookup (targetAs : Nat) (endoff : Nat) (tbl : List (Nat × Nat))
  | memarr (targetAs : Nat) (base : FullAddr) (shift elemsz valsz : Nat)
  deriving DecidableEq, Repr, Inhabited

def Meth.targetAs : Meth → Nat
  | .nometh => NOADDR
  | .linear t _ => t | .pgt t _ _ _ => t | .lookup t _ _ => t | .memarr t _ _ _ _ => t
  | .custom t _ _ _ => t

/-- The public `addrxlat_step_t` state. -/
structure Step where
  base : FullAddr
  remain : Nat
  elemsz : Nat
  idx : List Nat          -- ADDRXLAT_FIELDS_MAX + 1 = 9 entries
  raw : Nat
  deriving DecidableEq, Repr, Inhabited

abbrev Mem := Nat → Nat → Nat → Except XStatus Nat

def idxAt (s : Step) (i : Nat) : Nat := s.idx.getD i 0
def setIdx (s : Step) (i v : Nat) : Step := { s with idx := s.idx.set i v }
def fieldAt (pf : PagingForm) (i : Nat) : Nat := pf.fieldsz.getD i 0

/-- `pteval_shift(fmt)`; `none` = −1 -/
def ptevalShift : PteFormat → Option Nat
  | .pfn32 | .arm | .ia32 => some 2
  | .pfn64 | .aarch64 | .aarch64Lpa | .aarch64Lpa2 | .ia32Pae | .x86_64 | .riscv64 | .s390x
  | .ppc64LinuxRpn30 => some 3
  | _ => none

def vaddrBits (pf : PagingForm) : Nat := pf.fieldsz.foldl (· + ·) 0

/-- `pf_table_span(pf, level)` -/
def tableSpan (pf : PagingForm) (level : Nat) : Nat :=
  (pf.fieldsz.take level).foldl (fun acc b => acc * 2^b % W) 1
def tableMask (pf : PagingForm) (level : Nat) : Nat := (tableSpan pf level + W - 1) % W

/-- `pgt_huge_page(step)` -/
def hugePage (pf : PagingForm) (s : Step) : Step :=
  let rec go : Nat → Nat → Nat → Nat × Nat
    | 0, remain, off => (remain, off)
    | fuel+1, remain, off =>
      if remain > 1 then
        let r := remain - 1
        go fuel r (((off ||| s.idx.getD r 0) * 2^(fieldAt pf (r - 1))) % W)
      else (remain, off)
  let (remain, off) := go s.remain s.remain 0
  let s1 := { s with remain := remain, elemsz := 1 }
  setIdx s1 0 (idxAt s1 0 ||| off)

/-- `first_step_pgt_generic` -/
def firstStepPgtGeneric (root : FullAddr) (pf : PagingForm) (addr : Nat) : Except XStatus Step :=
  if root.as = NOADDR then .error .nodata
  else
    let n := pf.fieldsz.length
    let elemsz := if n > 1 then (match ptevalShift pf.fmt with | some k => 2^k | none => 0) else 1
    let rec split : List Nat → Nat → List Nat
      | [], a => [a]
      | b :: bs, a => (if b < 64 then a % 2^b else a) :: split bs (if b < 64 then a / 2^b else 0)
    let idx := split pf.fieldsz addr
    .ok { base := root, remain := n, elemsz := elemsz,
          idx := idx ++ List.replicate (9 - idx.length) 0, raw := 0 }

/-- `step_check_uaddr` -/
def checkUaddr (pf : PagingForm) (s : Step) : Except XStatus Step :=
  if idxAt s pf.fieldsz.length ≠ 0 then .error .invalid else .ok s

/-- `step_check_saddr` (1-bit signed bit-field: −1 or 0) -/
def checkSaddr (pf : PagingForm) (s : Step) : Except XStatus Step :=
  let lvl := pf.fieldsz.length
  let top := idxAt s (lvl - 1) / 2^(fieldAt pf (lvl - 1) - 1)
  let signext := if top % 2 = 1 then (W - 1) / 2^(vaddrBits pf) else 0
  if idxAt s lvl ≠ signext then .error .invalid else .ok s

/-- the `first_step` callback of a custom method (see `CustomArm`) -/
def firstStepCustom (mask : Nat) (hit miss : CustomArm) (addr : Nat) : Except XStatus Step :=
  match (if addr &&& mask ≠ 0 then hit else miss) with
  | .finish as off =>
    .ok { base := ⟨(addr + off) % W, as⟩, remain := 0, elemsz := 0, idx := List.replicate 9 0, raw := 0 }
  | .step as off =>
    .ok { base := ⟨off, as⟩, remain := 1, elemsz := 1, idx := addr :: List.replicate 8 0, raw := 0 }
  | .fail st => .error (if st = .ok then .nometh else st)   -- a callback cannot fail "with OK"

/-- `first_step` -/
def firstStep (m : Meth) (addr : Nat) : Except XStatus Step :=
  match m with
  | .nometh => .error .nometh
  | .custom _ mask hit miss => firstStepCustom mask hit miss addr
  | .linear t off =>
    .ok { base := ⟨off, t⟩, remain := 1, elemsz := 1, idx := addr :: List.replicate 8 0, raw := 0 }
  | .pgt _ root _ pf =>
    match pf.fmt with
    | .none | .aarch64 | .aarch64Lpa | .aarch64Lpa2 | .arm | .ppc64LinuxRpn30 =>
      firstStepPgtGeneric root pf addr
    | .pfn32 | .pfn64 | .ia32 | .ia32Pae | .s390x =>
      firstStepPgtGeneric root pf addr >>= checkUaddr pf
    | .riscv64 | .x86_64 =>
      firstStepPgtGeneric root pf addr >>= checkSaddr pf
    | .riscv32 => .error .notimpl
  | .lookup t endoff tbl =>
    match tbl.find? (fun (orig, _) => orig ≤ addr ∧ addr ≤ (orig + endoff) % W) with
    | some (orig, dest) =>
      .ok { base := ⟨dest, t⟩, remain := 1, elemsz := 1,
            idx := (addr - orig) :: List.replicate 8 0, raw := 0 }
    | none => .error .notpresent
  | .memarr _ base shift elemsz _ =>
    .ok { base := base, remain := 2, elemsz := elemsz,
          idx := addr % 2^shift :: addr / 2^shift :: List.replicate 7 0, raw := 0 }

/-- `read_pte32` / `read_pte64`: returns the step with `raw` set and the masked PTE -/
def readPte (mem : Mem) (size : Nat) (pteMask : Nat) (s : Step) : Except XStatus (Step × Nat) :=
  match mem s.base.as s.base.addr size with
  | .error e => .error e
  | .ok v =>
    let keep := (W - 1) ^^^ pteMask % W       -- ~pte_mask
    .ok ({ s with raw := v }, v &&& keep)

/-- the common tail of the x86-family handlers -/
def leafOrTable (s : Step) (t addr : Nat) : Step :=
  let s1 := { s with base := ⟨clearLow addr 12, t⟩ }
  if s.remain = 1 then { s1 with elemsz := 1 } else s1

/-- `pgt_x86_64` -/
def pgtX86_64 (mem : Mem) (t pteMask : Nat) (pf : PagingForm) (s : Step) : Except XStatus Step := do
  let (s, pte) ← readPte mem 8 pteMask s
  if !testBit pte 0 then throw .notpresent
  let a := pte % 2^52
  if s.remain = 3 ∧ testBit pte 7 then
    pure (hugePage pf { s with base := ⟨clearLow a 30, t⟩ })
  else if s.remain = 2 ∧ testBit pte 7 then
    pure (hugePage pf { s with base := ⟨clearLow a 21, t⟩ })
  else pure (leafOrTable s t a)

/-- `pgt_ia32` -/
def pgtIa32 (mem : Mem) (t pteMask : Nat) (pf : PagingForm) (s : Step) : Except XStatus Step := do
  let (s, pte) ← readPte mem 4 pteMask s
  if !testBit pte 0 then throw .notpresent
  if s.remain = 2 ∧ testBit pte 7 then
    pure (hugePage pf { s with base := ⟨clearLow pte 22 ||| (bits pte 13 8 * 2^32), t⟩ })
  else pure (leafOrTable s t pte)

/-- `pgt_ia32_pae` -/
def pgtIa32Pae (mem : Mem) (t pteMask : Nat) (pf : PagingForm) (s : Step) : Except XStatus Step := do
  let (s, pte) ← readPte mem 8 pteMask s
  if !testBit pte 0 then throw .notpresent
  let a := pte % 2^52
  if s.remain = 2 ∧ testBit pte 7 then
    pure (hugePage pf { s with base := ⟨clearLow a 21, t⟩ })
  else pure (leafOrTable s t a)

/-- `pgt_riscv64` -/
def pgtRiscv64 (mem : Mem) (t pteMask : Nat) (pf : PagingForm) (s : Step) : Except XStatus Step := do
  let (s, pte) ← readPte mem 8 pteMask s
  if bits pte 0 1 = 0 then throw .notpresent
  let a := (bits pte 10 44 * 2^12) % W
  let perm := bits pte 1 3
  if s.remain > 1 ∧ perm ≠ 0 then
    let mask := tableMask pf s.remain
    pure (hugePage pf { s with base := ⟨a &&& ((W - 1) ^^^ mask), t⟩ })
  else if s.remain = 1 ∧ perm = 0 then throw .invalid
  else pure (leafOrTable s t a)

/-- `next_step_pfn_common` -/
def pgtPfn (mem : Mem) (size : Nat) (t pteMask : Nat) (pf : PagingForm) (s : Step) : Except XStatus Step := do
  let (s, pte) ← readPte mem size pteMask s
  if pte = 0 then throw .notpresent
  let s1 := { s with base := ⟨(pte * 2^(fieldAt pf 0)) % W, t⟩ }
  pure (if s.remain = 1 then { s1 with elemsz := 1 } else s1)

/-- `next_step_memarr` -/
def nextMemarr (mem : Mem) (t shift valsz : Nat) (s : Step) : Except XStatus Step :=
  if valsz = 4 ∨ valsz = 8 then
    match mem s.base.as s.base.addr valsz with
    | .error e => .error e
    | .ok v => .ok { s with raw := v, base := ⟨(v * 2^shift) % W, t⟩, elemsz := 1 }
  else .error .notimpl

end Kdf.Model.Pgt

namespace Kdf.Model.Pgt

/-- `next_step_pgt` for the formats modelled in this file; the remaining
architectures live in `Kdf/Model/PgtArch.lean` and are plugged in through
`extra`. -/
def nextStepPgt (extra : Mem → Nat → Nat → PagingForm → Step → Option (Except XStatus Step))
    (mem : Mem) (t : Nat) (pteMask : Nat) (pf : PagingForm) (s : Step) : Except XStatus Step :=
  match pf.fmt with
  | .none => .ok s
  | .pfn32 => pgtPfn mem 4 t pteMask pf s
  | .pfn64 => pgtPfn mem 8 t pteMask pf s
  | .ia32 => pgtIa32 mem t pteMask pf s
  | .ia32Pae => pgtIa32Pae mem t pteMask pf s
  | .riscv64 => pgtRiscv64 mem t pteMask pf s
  | .x86_64 => pgtX86_64 mem t pteMask pf s
  | _ => match extra mem t pteMask pf s with
    | some r => r
    | none => .error .notimpl

abbrev Extra := Mem → Nat → Nat → PagingForm → Step → Option (Except XStatus Step)

/-- `next_step` -/
def nextStep (extra : Extra) (mem : Mem) (m : Meth) (s : Step) : Except XStatus Step :=
  match m with
  | .nometh => .error .nometh
  | .linear _ _ | .lookup _ _ _ => .ok s
  | .custom _ _ _ _ => .ok s                       -- the harness's `next_step` callback does nothing
  | .pgt t _ pteMask pf => nextStepPgt extra mem t pteMask pf s
  | .memarr t _ shift _ valsz => nextMemarr mem t shift valsz s

/-- `addrxlat_step` -/
def stepOnce (extra : Extra) (mem : Mem) (m : Meth) (s : Step) : Except XStatus Step :=
  if s.remain = 0 then .ok s
  else
    let r := s.remain - 1
    let s1 := { s with remain := r, base := { s.base with addr := (s.base.addr + idxAt s r * s.elemsz) % W } }
    if r = 0 then .ok { s1 with base := { s1.base with as := m.targetAs }, elemsz := 0 }
    else nextStep extra mem m s1

/-- the `while (--step->remain)` loop of `addrxlat_walk` -/
def walkLoop (extra : Extra) (mem : Mem) (m : Meth) : Nat → Step → Except XStatus Step
  | 0, _ => .error .nomem            -- fuel exhausted (cannot happen: remain decreases)
  | fuel+1, s =>
    let r := s.remain - 1
    if r = 0 then
      .ok { s with remain := 0, elemsz := 0,
                   base := ⟨(s.base.addr + idxAt s 0 * s.elemsz) % W, m.targetAs⟩ }
    else
      let s1 := { s with remain := r, base := { s.base with addr := (s.base.addr + idxAt s r * s.elemsz) % W } }
      match nextStep extra mem m s1 with
      | .error e => .error e
      | .ok s2 => walkLoop extra mem m fuel s2

/-- `addrxlat_walk` (the input address is `step->base.addr`) -/
def walk (extra : Extra) (mem : Mem) (m : Meth) (addr : Nat) : Except XStatus Step :=
  match firstStep m addr with
  | .error e => .error e
  | .ok s => if s.remain = 0 then .ok s else walkLoop extra mem m (s.remain + 1) s

/-- `addrxlat_launch` then `addrxlat_step` until `remain = 0` or an error;
returns the intermediate states as well. -/
def launchSteps (extra : Extra) (mem : Mem) (m : Meth) (addr : Nat) : List Step × Except XStatus Step :=
  match firstStep m addr with
  | .error e => ([], .error e)
  | .ok s0 =>
    let rec go : Nat → Step → List Step → List Step × Except XStatus Step
      | 0, s, acc => (acc, .ok s)
      | fuel+1, s, acc =>
        if s.remain = 0 then (acc, .ok s)
        else match stepOnce extra mem m s with
          | .error e => (acc, .error e)
          | .ok s' => go fuel s' (acc ++ [s'])
    go (s0.remain + 1) s0 [s0]

end Kdf.Model.Pgt
