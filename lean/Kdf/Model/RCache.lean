import Kdf.Model.Pgt
/-!
# Model of the read cache of a translation context (`src/addrxlat/ctx.c`:
`get_cache_buf`, `touch_cache_slot`, the `READ_CACHE_SLOTS` ring) with a
**re-entrant** get-page callback — C09

`do_read32`/`do_read64` obtain the page that holds an address from
`get_cache_buf`: the slots are searched in slot order for one whose buffer covers
the address; otherwise the least recently used slot is recycled and the user's
get-page callback is asked for the page.  While the callback runs the slot
already carries the requested address, a NULL data pointer and the size of the
page it held *before*; a nested read that finds such a slot is the library's
"Infinite read recursion" (NODATA).  The callback is user code and may read
through the same context before it delivers the page (e.g. to look the machine
frame of the page up in a table that lives in memory itself) — that is a nested
`get_cache_buf`.  The `fix:` commit "bound the nesting of get-page callbacks"
counts the callbacks in progress (`cache.nesting`) and refuses to start one more
than `MAX_READ_NESTING`; the model carries the remaining budget
`fuel = MAX_READ_NESTING - nesting`, on which the recursion is structural.

A nested fetch picks its slot by the same rule, i.e. it may recycle the very slot
whose fetch is in progress (the MRU chain is only updated after a successful
fetch).  The model threads the cache state through the callback, so this
clobbering is reproduced, not idealised away.

The callback family covered: before delivering the page of address `a` it reads
the 64-bit object at `pre a` (if any) through the context with
`addrxlat_walk` on a one-element memory array whose base is that address, without
a translation system; it remembers the requested address on entry and stores the
page-aligned address, size 4096 and the data pointer on success.  Page content
is not part of this model (the value read is `pm` of `Driver/Sys.lean`; the
callback labels a page with the address it was asked for).
-/
namespace Kdf.Model.RCache
open Kdf.Model.Pgt

/-- `READ_CACHE_SLOTS` of addrxlat-priv.h -/
abbrev READ_CACHE_SLOTS : Nat := 4
/-- `MAX_READ_NESTING` of addrxlat-priv.h -/
abbrev MAX_READ_NESTING : Nat := 16
abbrev PAGE : Nat := 4096

/-- the fields of `addrxlat_buffer_t` the slot logic looks at -/
structure Slot where
  addr : FullAddr := ⟨0, 0⟩
  size : Nat := 0
  ptr : Bool := false            -- `buffer.ptr != NULL`
  deriving DecidableEq, Repr, Inhabited

/-- `slots`: by slot number; `order`: slot numbers from `cache->mru` along `next`
(most recently used first, the last one is `cache->mru->prev`) -/
structure RCache where
  slots : List Slot
  order : List Nat
  deriving DecidableEq, Repr, Inhabited

/-- `init_cache` on zeroed memory -/
def init : RCache := ⟨List.replicate READ_CACHE_SLOTS {}, List.range READ_CACHE_SLOTS⟩

/-- `buf->size > addr->addr - buf->addr.addr && buf->addr.as == addr->as` (unsigned) -/
def Slot.covers (s : Slot) (a : FullAddr) : Bool :=
  decide ((a.addr + W - s.addr.addr) % W < s.size) && (s.addr.as == a.as)

def slotAt (c : RCache) (i : Nat) : Slot := c.slots.getD i {}
def setSlot (c : RCache) (i : Nat) (s : Slot) : RCache := { c with slots := c.slots.set i s }

/-- `touch_cache_slot` -/
def touch (c : RCache) (i : Nat) : RCache := { c with order := i :: c.order.filter (· ≠ i) }

/-- `ctx->cache.mru->prev` -/
def lru (c : RCache) : Nat := c.order.getLastD 0

/-- what the callback delivers for a page -/
inductive PageRes
  | data                      -- OK, `ptr` set
  | noptr                     -- OK without data (`ptr` stays NULL)
  | fail (st : XStatus)
  deriving DecidableEq, Repr, Inhabited

/-- the get-page callback (see the module comment) -/
structure Cb where
  readCaps : Nat                          -- answer of the `read_caps` callback
  pre : FullAddr → Option FullAddr        -- object read through the context before the page is delivered
  res : FullAddr → PageRes                -- outcome for the page that holds the address

structure Out where
  res : Except XStatus Nat       -- status, on success the slot that holds the page
  cache : RCache
  calls : Nat                    -- get-page callbacks started
  depth : Nat                    -- deepest nesting of callbacks reached (0: none ran)
  deriving Repr, Inhabited

/-- the status `get_cache_buf` returns -/
def Out.status (o : Out) : XStatus := match o.res with | .ok _ => .ok | .error e => e

/-- the `out:` label of `get_cache_buf` -/
def finish (c : RCache) (i calls depth : Nat) : Out :=
  if (slotAt c i).ptr then ⟨.ok i, touch c i, calls, depth⟩
  else ⟨.error .nodata, c, calls, depth⟩                  -- "Infinite read recursion"

/-- the callback failed: `slot->buffer.size = 0; return status;` -/
def failed (c : RCache) (i : Nat) (st : XStatus) (calls depth : Nat) : Out :=
  ⟨.error st, setSlot c i { slotAt c i with size := 0 }, calls, depth⟩

def capsHas (caps as : Nat) : Bool := decide (as < 3) && (caps / 2^as % 2 == 1)

/-- `get_cache_buf`; `fuel` = `MAX_READ_NESTING - cache.nesting` -/
def getBuf (cb : Cb) : Nat → RCache → FullAddr → Out
  | fuel, c, a =>
    match c.slots.findIdx? (·.covers a) with
    | some i => finish c i 0 0
    | none =>
      match fuel with
      | 0 => ⟨.error .nodata, c, 0, 0⟩                     -- "Too many nested page reads"
      | fuel+1 =>
        let i := lru c
        -- put_page of the old content (no effect on the slot), then addr / ptr are reset; size is kept
        let c1 := setSlot c i { addr := a, size := (slotAt c i).size, ptr := false }
        -- the callback runs: first its own read through the context …
        let pre : Out :=
          match cb.pre a with
          | none => ⟨.ok 0, c1, 0, 0⟩
          | some e =>
            if capsHas cb.readCaps e.as then getBuf cb fuel c1 e
            else ⟨.error .nometh, c1, 0, 0⟩               -- `read64` → `internal_op` without a system
        match pre.res with
        | .error st => failed pre.cache i st (pre.calls + 1) (pre.depth + 1)
        | .ok _ =>
          -- … then the page
          match cb.res a with
          | .fail st => failed pre.cache i st (pre.calls + 1) (pre.depth + 1)
          | .data =>
            finish (setSlot pre.cache i ⟨⟨a.addr / PAGE * PAGE, a.as⟩, PAGE, true⟩) i (pre.calls + 1) (pre.depth + 1)
          | .noptr =>
            finish (setSlot pre.cache i ⟨⟨a.addr / PAGE * PAGE, a.as⟩, PAGE, false⟩) i (pre.calls + 1) (pre.depth + 1)

/-- a read from outside (no callback in progress) -/
def read (cb : Cb) (c : RCache) (a : FullAddr) : Out := getBuf cb MAX_READ_NESTING c a

end Kdf.Model.RCache
