import Kdf.Model.Pgt
/-!
# Model of the read cache of a translation context (`src/addrxlat/ctx.c`:
`get_cache_buf`, `touch_cache_slot`, the `READ_CACHE_SLOTS` ring) with a
**re-entrant** get-page callback — C09

`do_read32`/`do_read64` obtain the page that holds an address from
`get_cache_buf`: the slots are searched in slot order for one whose buffer covers
the address; otherwise the least recently used slot is recycled and the user's
get-page callback is asked for the page.  While the callback runs the slot
already carries the requested address, a NULL data pointer and the size of the
page it held *before*; a nested read that finds such a slot is the library's
"Infinite read recursion" (NODATA).  The callback is user code and may read
through the same context before it delivers the page (e.g. to look the machine
frame of the page up in a table that lives in memory itself) — that is a nested
`get_cache_buf`.  The repaired code (`fix:` "a nested read must not recycle a read cache slot that is
being filled") marks the slot (`filling`) for the duration of the callback; a nested
fetch recycles the least recently used slot that is **not** being filled and fails
with NODATA ("Too many nested page reads") when all `READ_CACHE_SLOTS` are.  (Before,
the nested fetch recycled the slot in progress: the outer callback then stored its
page over the buffer the nested read had obtained, and `put_page` was never called
for it.)  The model threads the cache state through the callback and keeps the ledger
of delivered and returned buffers (`got`, `put`).

The callback family covered: before delivering the page of address `a` it reads
the 64-bit object at `pre a` (if any) through the context with
`addrxlat_walk` on a one-element memory array whose base is that address, without
a translation system; it remembers the requested address on entry and stores the
page-aligned address, size 4096 and the data pointer on success.  Page content
is not part of this model (the value read is `pm` of `Driver/Sys.lean`; the
callback labels a page with the address it was asked for).
-/
namespace Kdf.Model.RCache
open Kdf.Model.Pgt

/-- `READ_CACHE_SLOTS` of addrxlat-priv.h -/
abbrev READ_CACHE_SLOTS : Nat := 4
abbrev PAGE : Nat := 4096

/-- the fields of `struct read_cache_slot` the slot logic looks at -/
structure Slot where
  addr : FullAddr := ⟨0, 0⟩
  size : Nat := 0
  ptr : Bool := false            -- `buffer.ptr != NULL`
  filling : Bool := false        -- the get-page callback for this slot is running
  deriving DecidableEq, Repr, Inhabited

/-- `slots`: by slot number; `order`: slot numbers from `cache->mru` along `next`
(most recently used first, the last one is `cache->mru->prev`) -/
structure RCache where
  slots : List Slot
  order : List Nat
  deriving DecidableEq, Repr, Inhabited

/-- `init_cache` on zeroed memory -/
def init : RCache := ⟨List.replicate READ_CACHE_SLOTS {}, List.range READ_CACHE_SLOTS⟩

/-- `buf->size > addr->addr - buf->addr.addr && buf->addr.as == addr->as` (unsigned) -/
def Slot.covers (s : Slot) (a : FullAddr) : Bool :=
  decide ((a.addr + W - s.addr.addr) % W < s.size) && (s.addr.as == a.as)

def slotAt (c : RCache) (i : Nat) : Slot := c.slots.getD i {}
def setSlot (c : RCache) (i : Nat) (s : Slot) : RCache := { c with slots := c.slots.set i s }

/-- `touch_cache_slot` -/
def touch (c : RCache) (i : Nat) : RCache := { c with order := i :: c.order.filter (· ≠ i) }

/-- a slot the ring names that is not being filled (the bound test is vacuous for the C ring,
whose members are the slots themselves) -/
def usable (c : RCache) (i : Nat) : Bool := decide (i < c.slots.length) && !(slotAt c i).filling

/-- the `while (slot->filling)` walk from `cache.mru->prev` along `prev`: the least recently
used slot that is not being filled; `none` when the walk arrives at `cache.mru` with every slot
being filled -/
def pick (c : RCache) : Option Nat := c.order.reverse.find? (usable c)

/-- what the callback delivers for a page -/
inductive PageRes
  | data                      -- OK, `ptr` set
  | noptr                     -- OK without data (`ptr` stays NULL)
  | fail (st : XStatus)
  deriving DecidableEq, Repr, Inhabited

/-- the get-page callback (see the module comment) -/
structure Cb where
  readCaps : Nat                          -- answer of the `read_caps` callback
  pre : FullAddr → Option FullAddr        -- object read through the context before the page is delivered
  res : FullAddr → PageRes                -- outcome for the page that holds the address

structure Out where
  res : Except XStatus Nat       -- status, on success the slot that holds the page
  cache : RCache
  calls : Nat                    -- get-page callbacks started
  depth : Nat                    -- deepest nesting of callbacks reached (0: none ran)
  got : Nat                      -- buffers the callbacks delivered (status OK)
  put : Nat                      -- `put_page` calls on delivered buffers
  stuck : Bool := false          -- recursion budget of the model exhausted (not a C behaviour; `read_not_stuck`)
  deriving Repr, Inhabited

/-- the status `get_cache_buf` returns -/
def Out.status (o : Out) : XStatus := match o.res with | .ok _ => .ok | .error e => e

/-- the `out:` label of `get_cache_buf` -/
def finish (c : RCache) (i calls depth got put : Nat) (stuck : Bool) : Out :=
  if (slotAt c i).ptr then ⟨.ok i, touch c i, calls, depth, got, put, stuck⟩
  else ⟨.error .nodata, c, calls, depth, got, put, stuck⟩          -- "Infinite read recursion"

/-- the callback failed: `slot->filling = 0; slot->buffer.size = 0; return status;` -/
def failed (c : RCache) (i : Nat) (st : XStatus) (calls depth got put : Nat) (stuck : Bool) : Out :=
  ⟨.error st, setSlot c i { slotAt c i with size := 0, filling := false }, calls, depth, got, put, stuck⟩

def capsHas (caps as : Nat) : Bool := decide (as < 3) && (caps / 2^as % 2 == 1)

/-- a buffer the cache owes a `put_page`: `size != 0`, and the slot is not one whose old buffer
has already been put because it is being filled again -/
def Slot.held (s : Slot) : Nat := if s.size ≠ 0 ∧ s.filling = false then 1 else 0
def held (c : RCache) : Nat := (c.slots.map Slot.held).sum
/-- slots not being filled -/
def Slot.free (s : Slot) : Nat := if s.filling then 0 else 1
def free (c : RCache) : Nat := (c.slots.map Slot.free).sum

/-- the callback's own read through the context, in the cache state `c1` it sees -/
def preRead (cb : Cb) (rec : RCache → FullAddr → Out) (c1 : RCache) (a : FullAddr) : Out :=
  match cb.pre a with
  | none => ⟨.ok 0, c1, 0, 0, 0, 0, false⟩
  | some e =>
    if capsHas cb.readCaps e.as then rec c1 e
    else ⟨.error .nometh, c1, 0, 0, 0, 0, false⟩            -- `read64` → `internal_op` without a system

/-- the rest of the callback and of `get_cache_buf` after the callback's own read `pre`;
`i` the slot being filled, `p` = 1 if its old content was given back with `put_page` -/
def deliver (cb : Cb) (a : FullAddr) (i p : Nat) (pre : Out) : Out :=
  match pre.res with
  | .error st => failed pre.cache i st (pre.calls + 1) (pre.depth + 1) pre.got (pre.put + p) pre.stuck
  | .ok _ =>
    match cb.res a with
    | .fail st => failed pre.cache i st (pre.calls + 1) (pre.depth + 1) pre.got (pre.put + p) pre.stuck
    | .data =>
      finish (setSlot pre.cache i ⟨⟨a.addr / PAGE * PAGE, a.as⟩, PAGE, true, false⟩) i
        (pre.calls + 1) (pre.depth + 1) (pre.got + 1) (pre.put + p) pre.stuck
    | .noptr =>
      finish (setSlot pre.cache i ⟨⟨a.addr / PAGE * PAGE, a.as⟩, PAGE, false, false⟩) i
        (pre.calls + 1) (pre.depth + 1) (pre.got + 1) (pre.put + p) pre.stuck

/-- the slot as `get_cache_buf` leaves it for the callback: `put_page` of the old content done,
`addr` / `ptr` reset, the old `size` kept, marked as being filled -/
def beginFill (c : RCache) (i : Nat) (a : FullAddr) : RCache :=
  setSlot c i { addr := a, size := (slotAt c i).size, ptr := false, filling := true }

/-- `get_cache_buf`.  The C function has no counter: every level of nesting marks one more slot
as being filled and the slot choice fails when none is left.  `fuel` only makes the recursion
structural; `Kdf.Props.C09.read_not_stuck` shows that it never runs out when it is at least the
number of slots not being filled. -/
def getBuf (cb : Cb) : Nat → RCache → FullAddr → Out
  | fuel, c, a =>
    match c.slots.findIdx? (·.covers a) with
    | some i => finish c i 0 0 0 0 false
    | none =>
      match pick c with
      | none => ⟨.error .nodata, c, 0, 0, 0, 0, false⟩      -- "Too many nested page reads"
      | some i =>
        match fuel with
        | 0 => ⟨.error .nodata, c, 0, 0, 0, 0, true⟩
        | fuel+1 =>
          deliver cb a i (slotAt c i).held (preRead cb (getBuf cb fuel) (beginFill c i a) a)

/-- a read from outside (no callback in progress) -/
def read (cb : Cb) (c : RCache) (a : FullAddr) : Out := getBuf cb c.slots.length c a

end Kdf.Model.RCache
