/-!
# Model of the error-message buffer (`src/errmsg.h`) — C16

`err_vadd` prepends a formatted message to the current error string in place:
the string grows towards lower addresses inside the inline buffer, moves into
a heap block when the inline buffer is too small, and degrades to a marked
truncation when the heap block cannot be (re)allocated.  Every byte access of
the C function is an explicit access to one of three byte arrays (inline
buffer, heap block, the local `lbuf`); an access outside its array is recorded
in `oob`, never defaulted away.
-/
namespace Kdf.Model.Err

abbrev Byte := Nat

inductive Pos
  | null                    -- err->str == NULL
  | inBuf (off : Nat)       -- err->buf + off
  | inDyn (off : Nat)       -- err->dyn + off
  deriving DecidableEq, Repr, Inhabited

structure ErrBuf where
  bufsz : Nat
  buf : List Byte           -- inline fallback buffer, `bufsz` bytes
  dyn : Option (List Byte)  -- heap block (`err->dyn`), if any
  str : Pos
  oob : Bool := false       -- some access fell outside its array
  deriving DecidableEq, Repr, Inhabited

def init (bufsz : Nat) : ErrBuf :=
  { bufsz := bufsz, buf := List.replicate bufsz 0xAA, dyn := none, str := .null }

def clear (e : ErrBuf) : ErrBuf := { e with str := .null }

/-- read one byte at a position -/
def rd (e : ErrBuf) (p : Pos) (i : Nat) : Option Byte :=
  match p with
  | .null => none
  | .inBuf o => e.buf[o + i]?
  | .inDyn o => match e.dyn with | some d => d[o + i]? | none => none

/-- the NUL-terminated string at a position (fuel = array size) -/
def cstr (e : ErrBuf) (p : Pos) : List Byte :=
  let rec go : Nat → Nat → List Byte
    | 0, _ => []
    | fuel+1, i => match rd e p i with
      | some 0 => []
      | some b => b :: go fuel (i+1)
      | none => []
  go (e.bufsz + (match e.dyn with | some d => d.length | none => 0) + 1) 0

/-- `err_str` as the API presents it (NULL = no message) -/
def text (e : ErrBuf) : List Byte := cstr e e.str

/-- write a byte list at array offset `o` (each byte bounds-checked) -/
def wr (arr : List Byte) (o : Nat) (bs : List Byte) : List Byte × Bool :=
  bs.foldl (fun (acc : List Byte × Bool × Nat) b =>
    let (a, bad, i) := acc
    if i < a.length then (a.set i b, bad, i+1) else (a, true, i+1)) (arr, false, o) |> fun (a, bad, _) => (a, bad)

def wrAt (e : ErrBuf) (inDyn : Bool) (o : Nat) (bs : List Byte) : ErrBuf :=
  if inDyn then
    match e.dyn with
    | some d => let (d', bad) := wr d o bs; { e with dyn := some d', oob := e.oob || bad }
    | none => { e with oob := true }
  else
    let (b', bad) := wr e.buf o bs; { e with buf := b', oob := e.oob || bad }

def delim : List Byte := [58, 32]      -- ": "

/-- `err_vadd(err, fmt, ap)` where `msg` is the formatted message (no NUL) and
`allocOk` tells whether `realloc` succeeds.  Offsets may go "below zero" in a
buggy variant; that is reported through `oob`. -/
def vadd (e : ErrBuf) (msg : List Byte) (allocOk : Bool) : ErrBuf :=
  -- "Calculate required and already allocated space."
  let empty := match e.str with
    | .null => true
    | p => (rd e p 0 == some 0)
  let (e, inD, pos, remain, dlen) : ErrBuf × Bool × Nat × Nat × Nat :=
    if empty then
      (wrAt e false (e.bufsz - 1) [0], false, e.bufsz - 1, e.bufsz - 1, 0)
    else match e.str with
      | .inBuf o => (e, false, o, o, 2)
      | .inDyn o => (e, true, o, o, 2)
      | .null => (e, false, 0, 0, 0)
  let msglen := msg.length + dlen
  if remain < msglen then
    let old := cstr e (if inD then .inDyn pos else .inBuf pos)
    let curlen := old.length
    if allocOk then
      -- realloc + memmove of the old text + vsnprintf of the new one
      let newsz := 1 + curlen + msglen + 1
      let keep := match e.dyn with | some d => d.take newsz | none => []
      let blk := keep ++ List.replicate (newsz - keep.length) 0xDD
      let e1 := { e with dyn := some blk }
      let e2 := wrAt e1 true (msglen + 1) (old ++ [0])
      let e3 := wrAt e2 true 1 (msg ++ [0])
      -- delimiter
      let r := min msglen dlen
      let e4 := if dlen ≠ 0 then wrAt e3 true (msglen + 1 - r) (delim.drop (2 - r)) else e3
      { e4 with str := .inDyn 1 }
    else if remain ≠ 0 then
      -- truncation: char lbuf[bufsz + sizeof(delim)]; vsnprintf(lbuf, bufsz, ...)
      let lbuf0 : List Byte := (msg.take (e.bufsz - 1) ++ [0]) ++ List.replicate (e.bufsz + 2 - (min msg.length (e.bufsz - 1) + 1)) 0xEE
      let (lbuf, msglen) :=
        if msg.length ≥ e.bufsz then (lbuf0.set (e.bufsz - 2) 62, e.bufsz - 1 + dlen)      -- '>'
        else (lbuf0, msglen)
      -- memcpy(msg - remain, lbuf + msglen - remain, remain)
      let src := (List.range remain).map fun i => lbuf[msglen - remain + i]?
      let bad := src.any (·.isNone) || decide (msglen < remain)
      let bytes := src.map (·.getD 0xEE)
      let e1 := wrAt e inD (pos - remain) bytes
      let e1 := { e1 with oob := e1.oob || bad }
      let e2 := wrAt e1 inD (pos - remain) [60]                                              -- '<'
      let r := min (remain - 1) dlen
      let e3 := if dlen ≠ 0 then wrAt e2 inD (pos - r) (delim.drop (2 - r)) else e2
      { e3 with str := if inD then .inDyn (pos - remain) else .inBuf (pos - remain) }
    else
      let e1 := wrAt e inD pos [60]
      { e1 with str := if inD then .inDyn pos else .inBuf pos }
  else
    -- fits: vsnprintf(msg - msglen, msglen + 1, ...)
    let e1 := wrAt e inD (pos - msglen) (msg ++ [0])
    let r := min remain dlen
    let e2 := if dlen ≠ 0 then wrAt e1 inD (pos - r) (delim.drop (2 - r)) else e1
    { e2 with str := if inD then .inDyn (pos - msglen) else .inBuf (pos - msglen) }

end Kdf.Model.Err
