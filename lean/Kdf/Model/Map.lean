/-!
# Model of the translation map (`src/addrxlat/map.c`) — C10

`addrxlat_addr_t` is `Nat` with every C operation that can wrap written `% W`.
A map is the list of its ranges (`endoff`, `meth`); range starts are implicit.
`mapSet` follows `addrxlat_map_set` statement by statement: the two scans, the
merge-down / merge-up tests, `extend`, `delta`, the allocation *before* any
mutation, `memmove` as a splice on an explicit array, then the boundary writes
by index.  An access through an index outside the array is the distinguished
status `oob`, never a default.
-/
namespace Kdf.Model.Map

abbrev W : Nat := 2^64
abbrev ADDR_MAX : Nat := W - 1
/-- `ADDRXLAT_SYS_METH_NONE` -/
abbrev NONE : Int := -1

structure Range where
  endoff : Nat
  meth : Int
  deriving DecidableEq, Repr, Inhabited

abbrev Map := List Range

inductive Status | ok | nomem | oob
  deriving DecidableEq, Repr, Inhabited

/-- Content of freshly (re)allocated, not yet written slots. -/
def garbage : Range := ⟨0xDEAD, -99⟩

/-- `addrxlat_map_search`. -/
def searchFrom : Map → Nat → Nat → Int
  | [], _, _ => NONE
  | r :: rs, raddr, addr =>
    if addr ≤ (raddr + r.endoff) % W then r.meth
    else searchFrom rs ((raddr + r.endoff + 1) % W) addr

def mapSearch (m : Map) (addr : Nat) : Int := searchFrom m 0 addr

/-- First loop of `addrxlat_map_set`: `suffix` = ranges from `first` on.
Returns the new index of `first` and `raddr`. -/
def scanFirst (addr : Nat) : Map → Nat → Nat → Nat × Nat
  | [], i, raddr => (i, raddr)
  | r :: rs, i, raddr =>
    if (raddr + r.endoff) % W ≥ addr then (i, raddr)
    else scanFirst addr rs (i+1) ((raddr + r.endoff + 1) % W)

/-- Second loop: `rest` = ranges after `last`.  `none` = read past the array. -/
def scanLast (end_ : Nat) : Map → Nat → Nat → Nat → Int → Option (Nat × Nat × Nat × Int)
  | rest, li, left, rend, delta =>
    if left = 0 then some (li, left, rend, delta)
    else if rend ≥ end_ then some (li, left, rend, delta)
    else match rest with
      | [] => none
      | r :: rs => scanLast end_ rs (li+1) (left-1) ((rend + r.endoff + 1) % W) (delta-1)

/-- `memmove(arr+dst, arr+src, cnt)` on an array given as a list. -/
def memmove (arr : Map) (dst src cnt : Nat) : Option Map :=
  if src + cnt ≤ arr.length ∧ dst + cnt ≤ arr.length then
    some (arr.take dst ++ (arr.drop src).take cnt ++ arr.drop (dst + cnt))
  else none

def setEndoff (arr : Map) (i : Nat) (v : Nat) : Option Map :=
  match arr[i]? with
  | some r => some (arr.set i { r with endoff := v })
  | none => none

def setRange (arr : Map) (i : Nat) (r : Range) : Option Map :=
  if i < arr.length then some (arr.set i r) else none

/-- Everything `addrxlat_map_set` has decided before it touches the array. -/
structure Plan where
  fi : Nat          -- index of `first`
  li : Nat          -- index of `last`
  left : Nat
  raddr : Nat
  rend : Nat
  extend : Nat
  delta : Int
  deriving Repr, DecidableEq

/-- The non-empty branch up to and including the "split begin and/or end"
adjustment of `delta`. -/
def planNonEmpty (m : Map) (addr : Nat) (r : Range) : Option Plan :=
  let end_ := (addr + r.endoff) % W
  let n := m.length
  let (fi0, raddr0) := scanFirst addr m 0 0
  -- include the previous region if it can be merged
  let fr : Option (Nat × Nat) :=
    if raddr0 ≠ 0 ∧ raddr0 = addr then
      match (if fi0 = 0 then none else m[fi0 - 1]?) with
      | none => none                                   -- first[-1] outside the array
      | some p =>
        if p.meth = r.meth then some (fi0 - 1, (raddr0 + W - (p.endoff + 1) % W) % W)
        else some (fi0, raddr0)
    else some (fi0, raddr0)
  match fr with
  | none => none
  | some (fi, raddr1) =>
  match m[fi]? with
  | none => none                                       -- first->endoff outside the array
  | some f =>
  let left0 := n - fi
  match scanLast end_ (m.drop (fi+1)) fi left0 ((raddr1 + f.endoff) % W) 2 with
  | none => none
  | some (li0, left1, rend0, delta0) =>
  -- include the following region if it can be merged
  let lr : Option (Nat × Nat × Nat × Int) :=
    if left1 > 1 ∧ rend0 = end_ then
      match m[li0 + 1]? with
      | none => none
      | some q =>
        if q.meth = r.meth then some (li0 + 1, left1 - 1, (rend0 + q.endoff + 1) % W, delta0 - 1)
        else some (li0, left1, rend0, delta0)
    else some (li0, left1, rend0, delta0)
  match lr with
  | none => none
  | some (li, left, rend1, delta1) =>
  match m[li]? with
  | none => none
  | some l =>
  -- merge up and/or down
  let (ext1, raddr) := if f.meth = r.meth then ((addr + W - raddr1) % W, addr) else (0, raddr1)
  let (extend, rend) := if l.meth = r.meth then ((ext1 + (rend1 + W - end_) % W) % W, end_) else (ext1, rend1)
  let delta2 := if addr = raddr then delta1 - 1 else delta1
  let delta := if rend = end_ then delta2 - 1 else delta2
  some ⟨fi, li, left, raddr, rend, extend, delta⟩

/-- The array surgery after the allocation succeeded (or was not needed).
`arr` has the (re)allocated capacity; `n` is `map->n`. -/
def applyPlan (arr : Map) (n : Nat) (p : Plan) (addr : Nat) (r : Range) : Status × Map :=
  let end_ := (addr + r.endoff) % W
  -- memmove(last + delta, last, left)
  let moved : Option (Map × Nat × Nat) :=
    if p.delta = 0 then some (arr, p.li, n)
    else
      let dst : Int := (p.li : Int) + p.delta
      let n' : Int := (n : Int) + p.delta
      if dst < 0 ∨ n' < 0 then none
      else match memmove arr dst.toNat p.li p.left with
        | none => none
        | some a => some (a, dst.toNat, n'.toNat)
  match moved with
  | none => (.oob, arr)
  | some (a1, li, n') =>
  -- resize adjacent regions if necessary
  let s1 : Option (Map × Nat) :=
    if p.raddr ≠ addr then
      match setEndoff a1 p.fi ((addr + W - p.raddr + W - 1) % W) with
      | none => none
      | some a => some (a, p.fi + 1)
    else some (a1, p.fi)
  match s1 with
  | none => (.oob, arr)
  | some (a2, fi) =>
  let s2 : Option Map :=
    if p.rend ≠ end_ then setEndoff a2 li ((p.rend + W - end_ + W - 1) % W)
    else some a2
  match s2 with
  | none => (.oob, arr)
  | some a3 =>
  match setRange a3 fi ⟨(r.endoff + p.extend) % W, r.meth⟩ with
  | none => (.oob, arr)
  | some a4 => if n' ≤ a4.length then (.ok, a4.take n') else (.oob, arr)

/-- `addrxlat_map_set(map, addr, range)`; `allocOk` = does `realloc` succeed. -/
def mapSet (m : Map) (addr : Nat) (r : Range) (allocOk : Bool) : Status × Map :=
  let end_ := (addr + r.endoff) % W
  match m with
  | [] =>
    -- empty map: delta = 3, first = last = NULL
    let (extend, raddr, rend) :=
      if r.meth = NONE then ((ADDR_MAX + W - (end_ + W - addr) % W) % W, addr, end_)
      else (0, 0, ADDR_MAX)
    let d1 : Int := if addr = raddr then 2 else 3
    let delta : Int := if rend = end_ then d1 - 1 else d1
    if delta > 0 then
      if !allocOk then (.nomem, m)
      else
        let arr := ⟨ADDR_MAX, NONE⟩ :: List.replicate (delta.toNat - 1) garbage
        applyPlan arr 1 ⟨0, 0, 1, raddr, rend, extend, delta - 1⟩ addr r
    else
      -- delta = 0 cannot be reached with first = NULL in C without a NULL dereference
      (.oob, m)
  | _ :: _ =>
    match planNonEmpty m addr r with
    | none => (.oob, m)
    | some p =>
      if p.delta > 0 then
        if !allocOk then (.nomem, m)
        else applyPlan (m ++ List.replicate p.delta.toNat garbage) m.length p addr r
      else applyPlan m m.length p addr r

/-- `addrxlat_map_copy`: two allocations (the map object, the range array). -/
def mapCopy (m : Map) (allocMap allocRanges : Bool) : Option Map :=
  if allocMap && allocRanges then some m else none

/-! ## `sys_set_layout` (`src/addrxlat/sys.c`): a table of range assignments put into a map slot

A translation system holds its maps in slots that start out as `NULL` (`none`).
`sys_set_layout` allocates the map of the slot when it is missing and assigns the
regions of a layout table in order; a region with the *direct* action first runs
`act_direct`, which puts the one-region table `[0, last-first] -> RDIRECT` into the
slot of the reverse direct map (`ADDRXLAT_SYS_MAP_KPHYS_DIRECT`) with a nested
`sys_set_layout`.  Any failed allocation (of a map object or inside a range
assignment) ends the whole call with that status.

Allocation outcomes are a stream: every allocation request takes the head; an
exhausted stream succeeds. -/

/-- `ADDRXLAT_SYS_METH_RDIRECT` -/
abbrev RDIRECT : Int := 5

structure LRegion where
  first : Nat
  last : Nat
  meth : Int
  direct : Bool
  deriving Repr, DecidableEq

def takeAlloc : List Bool → Bool × List Bool
  | [] => (true, [])
  | b :: bs => (b, bs)

/-- Does `addrxlat_map_set` call `realloc`?  Exactly when a failing allocator makes it report `nomem`. -/
def setNeedsAlloc (m : Map) (addr : Nat) (r : Range) : Bool :=
  (mapSet m addr r false).1 == .nomem

/-- `addrxlat_map_set` on the allocation stream. -/
def mapSetS (m : Map) (addr : Nat) (r : Range) (al : List Bool) : Status × Map × List Bool :=
  if setNeedsAlloc m addr r then
    ((mapSet m addr r (takeAlloc al).1).1, (mapSet m addr r (takeAlloc al).1).2, (takeAlloc al).2)
  else
    ((mapSet m addr r true).1, (mapSet m addr r true).2, al)

/-- `if (!map) map = internal_map_new();` -/
def slotNew (s : Option Map) (al : List Bool) : Option Map × List Bool :=
  match s with
  | some m => (some m, al)
  | none => (if (takeAlloc al).1 then some [] else none, (takeAlloc al).2)

/-- The loop of `sys_set_layout` over a table whose regions have no allocating action. -/
def setAll : Map → List (Nat × Range) → List Bool → Status × Map × List Bool
  | m, [], al => (.ok, m, al)
  | m, (addr, r) :: rest, al =>
    if (mapSetS m addr r al).1 = .ok then setAll (mapSetS m addr r al).2.1 rest (mapSetS m addr r al).2.2
    else mapSetS m addr r al

/-- `sys_set_layout` on a slot, table without allocating actions (the nested call of `act_direct`). -/
def layoutPlain (s : Option Map) (regs : List (Nat × Range)) (al : List Bool) :
    Status × Option Map × List Bool :=
  match slotNew s al with
  | (none, al') => (.nomem, none, al')
  | (some m, al') => ((setAll m regs al').1, some (setAll m regs al').2.1, (setAll m regs al').2.2)

def LRegion.range (g : LRegion) : Range := ⟨(g.last + W - g.first) % W, g.meth⟩
/-- the table `act_direct` builds for the reverse direct map -/
def LRegion.revTable (g : LRegion) : List (Nat × Range) := [(0, ⟨(g.last + W - g.first) % W, RDIRECT⟩)]

/-- The region loop of `sys_set_layout`: `m` is the map of the slot, `rev` the slot of the reverse direct map. -/
def layoutLoop : Map → Option Map → List LRegion → List Bool → Status × Map × Option Map × List Bool
  | m, rev, [], al => (.ok, m, rev, al)
  | m, rev, g :: rest, al =>
    let pre : Status × Option Map × List Bool :=
      if g.direct then layoutPlain rev g.revTable al else (.ok, rev, al)
    -- `status = act_direct(ctl, region); if (status != ADDRXLAT_OK) return status;`
    if pre.1 = .ok then
      let res := mapSetS m g.first g.range pre.2.2
      if res.1 = .ok then layoutLoop res.2.1 pre.2.1 rest res.2.2
      else (res.1, res.2.1, pre.2.1, res.2.2)
    else (pre.1, m, pre.2.1, pre.2.2)

structure Sys where
  map : Option Map
  rev : Option Map
  deriving Repr, DecidableEq

/-- `sys_set_layout(ctl, idx, layout)` with `idx != ADDRXLAT_SYS_MAP_KPHYS_DIRECT`. -/
def setLayout (s : Sys) (regs : List LRegion) (al : List Bool) : Status × Sys :=
  match slotNew s.map al with
  | (none, _) => (.nomem, s)
  | (some m, al') =>
    ((layoutLoop m s.rev regs al').1, ⟨some (layoutLoop m s.rev regs al').2.1, (layoutLoop m s.rev regs al').2.2.1⟩)

end Kdf.Model.Map
