import Kdf.Model.Pgt
/-!
# Model of the recursive page-table scanners of `src/addrxlat/step.c` — C08

`lowest_mapped`, `highest_mapped`, `lowest_unmapped` (each with its `_tbl`
worker) and `highest_linear`, over the C02 step model: `launch` is
`addrxlat_launch` (`Pgt.firstStep`), `sf` is `addrxlat_step`
(`Pgt.stepOnce extra mem meth`), so the memory the scanners see is a parameter.

The C workers are recursive in the paging level and loop over the entries of
one table.  Here the recursion is structural on `depth` (the C recursion
depth is bounded by `step->remain`, which `addrxlat_step` decrements) and the
loop is structural on `iters` (every iteration increments — or decrements — the
index into the current table and stops at the table size, so `nelem`
iterations suffice).  Exhausting either is the distinguished result `Res.fuel`,
never a default; `Kdf.Props.C08.scanner_*` prove it unreachable on the x86-64
paging forms.  An undefined shift (`fieldsz ≥ 64`) or an index outside
`fieldsz[]` is `Res.undef` (`highest_mapped_tbl` does not compute the table size
of its own level in C; the model asks for it only to size the loop budget, which
can differ from C only for such malformed paging forms).

`*addr` is threaded through as a value; `step` is copied back from `mystep`
exactly where the C code does `memcpy(step, &mystep, …)`.  What the caller can
observe after the call is `(status, *addr, *step)`; `*step` is reported only
on success (the C callers read `step.base` after an OK return only).

Not modelled: the error message, the `noerr.notpresent` flag (it only
suppresses the message) and `bury_cache_buffer` (a hint to the read cache).
-/
namespace Kdf.Model.Scan
open Kdf.Model.Pgt

/-- `(addrxlat_addr_t)1 << pf->fieldsz[level]`; a shift by 64 or more is
undefined in C: `none` -/
def tableSize (pf : PagingForm) (level : Nat) : Option Nat :=
  match pf.fieldsz[level]? with
  | none => none
  | some b => if b < 64 then some (2^b) else none

inductive Res
  | done (st : XStatus) (addr : Nat) (step : Step)   -- `return st` with `*addr`, `*step`
  | fuel                                              -- model recursion budget exhausted (unreachable)
  | undef                                             -- undefined shift / index outside `fieldsz[]`
  deriving Repr, Inhabited

abbrev StepFn := Step → Except XStatus Step

/-- `for (i = 0; i < mystep.remain - 1; ++i) mystep.idx[i] = v i;` -/
def fillLow (my : Step) (v : Nat → Nat) : Step :=
  { my with idx := my.idx.mapIdx (fun i x => if i < my.remain - 1 then v i else x) }

/-! ### lowest_mapped -/

/-- the `while (*addr <= limit)` loop of `lowest_mapped_tbl`; `rec` is the
recursive call for the next level -/
def lmLoop (sf : StepFn) (limit nelem tblmask : Nat) (rec : Step → Nat → Res) :
    Nat → Step → Step → Nat → Res
  | 0, _, _, _ => .fuel
  | k+1, my, step, addr =>
    if addr ≤ limit then
      -- status = internal_step(step)
      let cont (addr' : Nat) : Res :=
        let my1 := fillLow my (fun _ => 0)
        let i := my.remain - 1
        let v := (idxAt my1 i + 1) % W
        let my2 := setIdx my1 i v
        if v ≥ nelem then .done .notpresent addr' step
        else lmLoop sf limit nelem tblmask rec k my2 my2 addr'
      match sf step with
      | .ok s1 =>
        if s1.remain ≤ 1 then
          match sf s1 with
          | .ok s2 => .done .ok addr s2
          | .error e => .done e addr s1
        else
          match rec s1 addr with
          | .done .notpresent addr' _ => cont addr'
          | r => r
      | .error .notpresent => cont (((addr ||| tblmask) + 1) % W)
      | .error e => .done e addr step
    else .done .notpresent addr step

/-- `lowest_mapped_tbl` -/
def lmTbl (sf : StepFn) (pf : PagingForm) (limit : Nat) : Nat → Step → Nat → Res
  | 0, _, _ => .fuel
  | d+1, step, addr =>
    if step.remain = 0 then .undef
    else match tableSize pf (step.remain - 1) with
      | none => .undef
      | some nelem =>
        lmLoop sf limit nelem (tableMask pf (step.remain - 1)) (lmTbl sf pf limit d) (nelem + 1) step step addr

/-- `x & ~mask` for `mask = 2^k - 1` given as a number -/
def andNot (x mask : Nat) : Nat := x &&& ((W - 1) ^^^ mask)

/-- `pf_page_mask(pf)` -/
def pageMask (pf : PagingForm) : Option Nat :=
  match tableSize pf 0 with
  | none => none
  | some sz => some (sz - 1)

/-- `lowest_mapped` -/
def lowestMapped (launch : Nat → Except XStatus Step) (sf : StepFn) (pf : PagingForm)
    (addr limit : Nat) : Res :=
  match pageMask pf with
  | none => .undef
  | some pm =>
    let a := andNot addr pm
    match launch a with
    | .error e => .done e a default
    | .ok s => lmTbl sf pf limit (s.remain + 1) s a

/-! ### highest_mapped -/

def hmLoop (sf : StepFn) (pf : PagingForm) (limit tblmask : Nat) (rec : Step → Nat → Res) :
    Nat → Step → Step → Nat → Res
  | 0, _, _, _ => .fuel
  | k+1, my, step, addr =>
    if addr ≥ limit then
      let cont (addr' : Nat) : Res :=
        -- mystep.idx[i] = pf_table_size(pf, i) - 1 for the lower levels
        let bad := (List.range (my.remain - 1)).any (fun i => (tableSize pf i).isNone)
        if bad then .undef
        else
          let my1 := fillLow my (fun i => (tableSize pf i).getD 1 - 1)
          let i := my.remain - 1
          let cur := idxAt my1 i
          let my2 := setIdx my1 i ((cur + W - 1) % W)      -- `mystep.idx[i]--` happens in both branches
          if cur = 0 then .done .notpresent addr' step
          else hmLoop sf pf limit tblmask rec k my2 my2 addr'
      match sf step with
      | .ok s1 =>
        if s1.remain ≤ 1 then
          match sf s1 with
          | .ok s2 => .done .ok addr s2
          | .error e => .done e addr s1
        else
          match rec s1 addr with
          | .done .notpresent addr' _ => cont addr'
          | r => r
      | .error .notpresent => cont ((andNot addr tblmask + W - 1) % W)
      | .error e => .done e addr step
    else .done .notpresent addr step

/-- `highest_mapped_tbl` -/
def hmTbl (sf : StepFn) (pf : PagingForm) (limit : Nat) : Nat → Step → Nat → Res
  | 0, _, _ => .fuel
  | d+1, step, addr =>
    if step.remain = 0 then .undef
    else match tableSize pf (step.remain - 1) with
      | none => .undef
      | some nelem =>
        hmLoop sf pf limit (tableMask pf (step.remain - 1)) (hmTbl sf pf limit d) (nelem + 1) step step addr

/-- `highest_mapped` -/
def highestMapped (launch : Nat → Except XStatus Step) (sf : StepFn) (pf : PagingForm)
    (addr limit : Nat) : Res :=
  match pageMask pf with
  | none => .undef
  | some pm =>
    let a := addr ||| pm
    match launch a with
    | .error e => .done e a default
    | .ok s => hmTbl sf pf limit (s.remain + 1) s a

/-! ### lowest_unmapped -/

def luLoop (sf : StepFn) (limit nelem tblmask : Nat) (rec : Step → Nat → Res) :
    Nat → Step → Step → Nat → Res
  | 0, _, _, _ => .fuel
  | k+1, my, step, addr =>
    if addr ≤ limit then
      let cont (addr' : Nat) : Res :=
        let my1 := fillLow my (fun _ => 0)
        let i := my.remain - 1
        let v := (idxAt my1 i + 1) % W
        let my2 := setIdx my1 i v
        if v ≥ nelem then .done .notpresent addr' step          -- `break`
        else luLoop sf limit nelem tblmask rec k my2 my2 addr'
      match sf step with
      | .error .notpresent => .done .ok addr step
      | .error e => .done e addr step
      | .ok s1 =>
        if s1.remain > 1 then
          match rec s1 addr with
          | .done .notpresent addr' _ => cont addr'
          | r => r
        else cont (((addr ||| tblmask) + 1) % W)
    else .done .notpresent addr step

/-- `lowest_unmapped_tbl` -/
def luTbl (sf : StepFn) (pf : PagingForm) (limit : Nat) : Nat → Step → Nat → Res
  | 0, _, _ => .fuel
  | d+1, step, addr =>
    if step.remain = 0 then .undef
    else match tableSize pf (step.remain - 1) with
      | none => .undef
      | some nelem =>
        luLoop sf limit nelem (tableMask pf (step.remain - 1)) (luTbl sf pf limit d) (nelem + 1) step step addr

/-- `lowest_unmapped` -/
def lowestUnmapped (launch : Nat → Except XStatus Step) (sf : StepFn) (pf : PagingForm)
    (addr limit : Nat) : Res :=
  match pageMask pf with
  | none => .undef
  | some pm =>
    let a := andNot addr pm
    match launch a with
    | .error e => .done e a default
    | .ok s => luTbl sf pf limit (s.remain + 1) s a

/-! ### highest_linear -/

inductive LinRes
  | done (st : XStatus) (addr : Nat)     -- `return st` with `*addr`
  | fuel | undef
  deriving DecidableEq, Repr, Inhabited

/-- `highest_linear`; `conv va` is `internal_fulladdr_conv(KVADDR:va → KPHYSADDR)`
through the system under construction (status and resulting address).  The
`while` loop has no bound in C (it ends when `lowest_mapped` stops answering
OK); `fuel` bounds the model's iterations, exhausting it is `LinRes.fuel`. -/
def highestLinear (launch : Nat → Except XStatus Step) (sf : StepFn) (pf : PagingForm)
    (conv : Nat → XStatus × Nat) (limit off : Nat) : Nat → Nat → Nat → XStatus → LinRes
  | 0, _, _, _ => .fuel
  | n+1, addr, nextaddr, ret =>
    match lowestMapped launch sf pf nextaddr limit with
    | .fuel => .fuel
    | .undef => .undef
    | .done .ok na _ =>
      match conv na with
      | (.ok, pa) =>
        if (pa + W - na) % W ≠ off then .done ret addr       -- `break` (status is OK here)
        else
          match lowestUnmapped launch sf pf na limit with
          | .fuel => .fuel
          | .undef => .undef
          | .done st na2 _ =>
            if st ≠ .ok ∧ st ≠ .notpresent then .done st addr
            else highestLinear launch sf pf conv limit off n ((na2 + W - 1) % W) na2 .ok
      | (e, _) => .done e addr
    | .done st _ _ =>
      .done (if st = .notpresent then ret else st) addr

end Kdf.Model.Scan
