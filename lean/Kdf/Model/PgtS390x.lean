import Kdf.Model.Pgt
/-!
# Model of `pgt_s390x` (`src/addrxlat/s390x.c`) — C02

Statement-by-statement transcription of the IBM z/Architecture page-table step
function.  The C file uses IBM bit numbering (bit 0 is the most significant bit
of the 64-bit entry): `TE_VAL(x, shift, bits) = (x >> (64-shift-bits)) & mask`.
Here every field is given with its conventional (LSB = 0) shift:

| C macro   | IBM bits | `bits pte shift n`   |
|-----------|----------|----------------------|
| `RSTE_FC` | 53       | `bits pte 10 1`      |
| `RSTE_I`  | 58       | `bits pte 5 1`       |
| `RSTE_TF` | 56–57    | `bits pte 6 2`       |
| `RSTE_TT` | 60–61    | `bits pte 2 2`       |
| `RSTE_TL` | 62–63    | `bits pte 0 2`       |
| `PTE_I`   | 53       | `bits pte 10 1`      |

The model describes the code that exists (library HEAD fff6375), see `pgidxShift`
for the shift amount of the "quarter index" (`pgidx`).
-/
namespace Kdf.Model.PgtS390x
open Kdf.Model.Pgt

/-- `TE_VAL(x, shift, bits)` with IBM bit numbering. -/
def teVal (x shift n : Nat) : Nat := x / 2^(64 - shift - n) % 2^n

def rsteFC (x : Nat) : Nat := teVal x 53 1      -- RSTE_FC
def rsteI  (x : Nat) : Nat := teVal x 58 1      -- RSTE_I
def rsteTF (x : Nat) : Nat := teVal x 56 2      -- RSTE_TF
def rsteTT (x : Nat) : Nat := teVal x 60 2      -- RSTE_TT
def rsteTL (x : Nat) : Nat := teVal x 62 2      -- RSTE_TL
def pteI   (x : Nat) : Nat := teVal x 53 1      -- PTE_I

/-- The shift count of the "quarter index"
`step->idx[step->remain - 1] >> (pf->fieldsz[step->remain - 1] - 2)`
(library HEAD fff6375; before that fix the count was `fieldsz[remain-1] - fieldsz[0]`,
i.e. `11 - 12 = -1`, undefined behaviour).

`fieldsz[]` is `unsigned short`, the subtraction is done in `int`; for every paging
form with `fieldsz[remain-1] ≥ 2` (all architectural forms: 11) the count is the
natural-number difference used here.  For a field narrower than 2 bits (or wider
than 65) the C expression is undefined; the model then shifts by `0` resp. the
large count (`pgidxShiftDefined` states when the expression is defined; the check
only uses forms where it is). -/
def pgidxShift (pf : PagingForm) (remain : Nat) : Nat :=
  fieldAt pf (remain - 1) - 2

/-- does the C expression have defined behaviour? (0 ≤ count < 64) -/
def pgidxShiftDefined (pf : PagingForm) (remain : Nat) : Bool :=
  2 ≤ fieldAt pf (remain - 1) && fieldAt pf (remain - 1) - 2 < 64

/-- `pgt_s390x` -/
def pgtS390x (mem : Mem) (t pteMask : Nat) (pf : PagingForm) (s : Step) : Except XStatus Step := do
  -- status = read_pte64(step, &pte);
  let (s, pte) ← readPte mem 8 pteMask s
  -- if ((step->remain > 1 && RSTE_I(pte)) || (step->remain == 1 && PTE_I(pte)))
  if (s.remain > 1 ∧ rsteI pte ≠ 0) ∨ (s.remain = 1 ∧ pteI pte ≠ 0) then throw .notpresent
  -- if (step->remain >= 2 && RSTE_TT(pte) != step->remain - 2)
  if s.remain ≥ 2 ∧ rsteTT pte ≠ s.remain - 2 then throw .invalid
  -- step->base.addr = pte; step->base.as = step->meth->target_as;
  let s := { s with base := ⟨pte, t⟩ }
  -- if (step->remain == 3 && RSTE_FC(pte)) { base.addr &= ~RFAA_MASK; return pgt_huge_page(step); }
  if s.remain = 3 ∧ rsteFC pte ≠ 0 then
    pure (hugePage pf { s with base := ⟨clearLow pte 31, t⟩ })        -- RFAA_MASK = ADDR_MASK(31)
  -- if (step->remain == 2 && RSTE_FC(pte)) { base.addr &= ~SFAA_MASK; return pgt_huge_page(step); }
  else if s.remain = 2 ∧ rsteFC pte ≠ 0 then
    pure (hugePage pf { s with base := ⟨clearLow pte 20, t⟩ })        -- SFAA_MASK = ADDR_MASK(SFAA_BITS = 20)
  else
    -- if (step->remain >= 3) { unsigned pgidx = idx[remain-1] >> (fieldsz[remain-1] - 2); ...
    let pgidx := idxAt s (s.remain - 1) / 2^(pgidxShift pf s.remain) % 2^32   -- (unsigned)
    --   if (pgidx < RSTE_TF(pte) || pgidx > RSTE_TL(pte)) return NOTPRESENT; }
    if s.remain ≥ 3 ∧ (pgidx < rsteTF pte ∨ pgidx > rsteTL pte) then throw .notpresent
    -- step->base.addr &= (step->remain == 2 ? ~PTO_MASK : ~PAGE_MASK);
    let a := if s.remain = 2 then clearLow pte 11                     -- PTO_MASK = ADDR_MASK(11)
             else clearLow pte 12                                     -- PAGE_MASK = ADDR_MASK(PAGE_SHIFT = 12)
    let s := { s with base := ⟨a, t⟩ }
    -- if (step->remain == 1) step->elemsz = 1;
    pure (if s.remain = 1 then { s with elemsz := 1 } else s)

end Kdf.Model.PgtS390x
