import Kdf.Model.Pgt
/-!
# Model of `src/addrxlat/arm.c` (32-bit Arm, short-descriptor format) — C02

Statement-by-statement transcription of `pgt_arm` and its helper `add_overlap`.
The first step is `first_step_pgt_generic` (see `firstStep` in `Pgt.lean`): the
library performs **no** range check on the input address for this format.
-/
namespace Kdf.Model.PgtArm
open Kdf.Model.Pgt

/-- `add_overlap(step, bits)`:
```
unsigned shift = pf->fieldsz[step->remain - 1];
step->idx[step->remain - 1] += (step->idx[step->remain] & ADDR_MASK(bits)) << shift;
```
(`addrxlat_addr_t` arithmetic: both the shift and the `+=` wrap at 2^64). -/
def addOverlap (pf : PagingForm) (s : Step) (nbits : Nat) : Step :=
  let shift := fieldAt pf (s.remain - 1)
  let add := ((idxAt s s.remain % 2^nbits) * 2^shift) % W        -- ADDR_MASK(bits), `<< shift`
  setIdx s (s.remain - 1) ((idxAt s (s.remain - 1) + add) % W)

/-- `pgt_arm` -/
def pgtArm (mem : Mem) (t pteMask : Nat) (pf : PagingForm) (s : Step) : Except XStatus Step := do
  let (s, pte) ← readPte mem 4 pteMask s                   -- read_pte32
  let type := bits pte 0 2                                  -- PTE_TYPE(pte) = PTE_VAL(pte, 0, 2)
  if type = 0 then throw .notpresent                        -- pte_not_present(step)
  -- step->base.as = step->meth->target_as;
  let s := { s with base := { s.base with as := t } }
  if s.remain > 1 then
    -- Level 1 descriptor
    if type ≠ 1 then
      if bits pte 18 1 ≠ 0 then                             -- PTE_SECTYPE(pte) = PTE_VAL(pte, 18, 1)
        -- Supersection
        let s := addOverlap pf s 4                          -- add_overlap(step, 4)
        let a := clearLow pte 24                            -- pte & ~SUPERSECT_MASK   (PTE_MASK(24))
                 ||| ((bits pte 20 4 * 2^32) % W)           -- SUPERSECT_32_35(pte) << 32
                 ||| ((bits pte 5 4 * 2^36) % W)            -- SUPERSECT_36_39(pte) << 36
        pure (hugePage pf { s with base := ⟨a, t⟩ })        -- return pgt_huge_page(step)
      else
        -- Section
        pure (hugePage pf { s with base := ⟨clearLow pte 20, t⟩ })   -- pte & ~SECT_MASK (PTE_MASK(20))
    else
      pure { s with base := ⟨clearLow pte 10, t⟩ }          -- pte & ~PAGE_TABLE_MASK (PTE_MASK(10))
  else
    -- Level 2 descriptor
    if type = 1 then
      -- Large page
      let s := addOverlap pf s 4                            -- add_overlap(step, 4)
      pure { s with base := ⟨clearLow pte 16, t⟩, elemsz := 1 }   -- pte & ~LARGE_PAGE_MASK (PTE_MASK(16))
    else
      -- Small page
      pure { s with base := ⟨clearLow pte 12, t⟩, elemsz := 1 }   -- pte & ~SMALL_PAGE_MASK (PTE_MASK(12))

end Kdf.Model.PgtArm
