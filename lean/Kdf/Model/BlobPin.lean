/-!
# Pins taken on a raw note blob while a derived attribute is extracted (C15)

`derived_attr_revalidate` (src/kdumpfile/util.c): the value of `cpu.N.reg.*` / `cpu.N.pid` is read out of the raw
`cpu.N.PRSTATUS` / `cpu.N.XEN_PRSTATUS` blob.  The blob is pinned for the time of the extraction; every exit gives the
pin back.  The model produces the status and the pin / unpin events of one call; driver stream `res`, line
`M derived <size of the blob | -> <offset> <length>`.
-/
namespace Kdf.Model.BlobPin

inductive Ev | pin | unpin
  deriving DecidableEq, Repr

inductive St | ok | nodata | corrupt | notimpl
  deriving DecidableEq, Repr

/-- `derived_attr_revalidate`; `raw` is the size of the raw blob when that attribute has a value -/
def derivedRevalidate (raw : Option Nat) (off len : Nat) : St × List Ev :=
  match raw with
  | none => (.nodata, [])                                  -- get_attr_blob fails before anything is pinned
  | some size =>
    if off + len > size then (.corrupt, [.pin, .unpin])    -- "attribute too short": the pin is dropped on the way out
    else if len = 1 ∨ len = 2 ∨ len = 4 ∨ len = 8 then (.ok, [.pin, .unpin])
    else (.notimpl, [.pin, .unpin])

/-- pins still held after a list of events -/
def net : List Ev → Int
  | [] => 0
  | .pin :: t => net t + 1
  | .unpin :: t => net t - 1

/-- no unpin without a pin before it -/
def wellNested : Nat → List Ev → Bool
  | _, [] => true
  | d, .pin :: t => wellNested (d + 1) t
  | 0, .unpin :: _ => false
  | d + 1, .unpin :: t => wellNested d t

def St.name : St → String
  | .ok => "ok" | .nodata => "nodata" | .corrupt => "corrupt" | .notimpl => "notimpl"

end Kdf.Model.BlobPin
