import Kdf.Gen.Status
/-!
# Status codes and their conversion (`src/kdumpfile/util.c`), and the probe loop
of `open_dump` (`src/kdumpfile/open.c`) — C16

Numeric codes come from `Kdf.Gen.Status`, regenerated from the headers.
-/
namespace Kdf.Model.Status
open Kdf.Gen.Status

def kdumpOK : Int := kdumpCodes.getD 0 99999
def kdumpNODATA : Int := kdumpCodes.getD 3 99999
def kdumpADDRXLAT : Int := kdumpCodes.getD 9 99999
def xOK : Int := addrxlatCodes.getD 0 99999
def xNODATA : Int := addrxlatCodes.getD 5 99999

/-- `addrxlat2kdump` (status part) -/
def addrxlat2kdump (st : Int) : Int :=
  if st = xOK then kdumpOK
  else if st < 0 then -st
  else if st = xNODATA then kdumpNODATA
  else kdumpADDRXLAT

/-- `kdump2addrxlat` (status part) -/
def kdump2addrxlat (st : Int) : Int :=
  if st = kdumpOK then xOK
  else if st = kdumpNODATA then xNODATA
  else -st

/-- result of one format's probe function -/
inductive Probe
  | ok
  | noprobe
  | err (st : Int)
  deriving DecidableEq, Repr

/-- the `for (i = 0; i < ARRAY_SIZE(formats); ++i)` loop of `open_dump`:
the status returned to the caller -/
def openDump : List Probe → Int
  | [] => kdumpCodes.getD 2 99999          -- KDUMP_ERR_NOTIMPL "Unknown file format"
  | .ok :: _ => kdumpOK
  | .noprobe :: rest => openDump rest
  | .err st :: rest => if st = noprobe then openDump rest else st

end Kdf.Model.Status
