/-!
# Model of the Xen domain dump page index (`src/kdumpfile/elfdump.c`) — C19

Transcribed functions: `pfn2idx_map_start`, `pfn2idx_map_addrange`,
`pfn2idx_map_add`, `pfn2idx_map_end`, `pfn2idx_map_search`, the loops of
`make_xen_pfn_map_auto` / `make_xen_pfn_map_nonauto` (as `mkDump`),
`xc_p2m_first_step`, `xc_m2p_first_step` (+ the one `next_step` of a custom
method with `remain = 1`, `elemsz = 1`) and `xc_get_page`.

Conventions: `kdump_pfn_t` / `uint_fast64_t` are `Nat`, every C expression
that is evaluated in 64-bit unsigned arithmetic is written `wrap (…)` over
`Int` (value modulo `2^64`) or `… % W`; `int_fast64_t len` is `Int` (it counts
list entries, so it cannot overflow for any file that exists — the theorems
state `l.length < 2^63`).  `realloc` is the oracle `ok : Nat → Bool` (does the
n-th `realloc` of this map succeed); `qsort` is an insertion sort over the
comparators of the C code (trusted to sort); the uninitialised `cur->pfn`
left by `pfn2idx_map_start` is the parameter `junk`; file content is the raw
record table `tbl` (values as the little-endian host loads them), the dump's
byte order is `be`.
-/
namespace Kdf.Model.Xen

abbrev W : Nat := 2^64
/-- `IDX_NONE = ~(uint_fast64_t)0` -/
abbrev IDX_NONE : Nat := W - 1
/-- `PFN2IDX_ALLOC_INC` -/
abbrev ALLOC_INC : Nat := 16

/-- Value of a C expression computed in `uint64_t` arithmetic. -/
def wrap (x : Int) : Nat := (x % (W : Int)).toNat

/-- `struct pfn2idx_range` (also the builder's cursor `cur`). -/
structure Range where
  pfn : Nat
  idx : Nat
  len : Int
  deriving DecidableEq, Repr, Inhabited

/-- `struct pfn2idx` -/
structure Single where
  pfn : Nat
  idx : Nat
  deriving DecidableEq, Repr, Inhabited

/-- `struct pfn2idx_map`: `nranges`/`nsingles` are the list lengths. -/
structure PMap where
  ranges : List Range
  singles : List Single
  deriving DecidableEq, Repr, Inhabited

/-- `pfn2idx_map_start`: empties the map, sets `cur->idx = 0`, `cur->len = 0`
and leaves `cur->pfn` as it was (`junk`). -/
def mapStart (junk : Nat) : PMap × Range := (⟨[], []⟩, ⟨junk, 0, 0⟩)

/-- Number of `realloc` calls made for this map so far (each array grows by
`ALLOC_INC` slots whenever its length is a multiple of `ALLOC_INC`). -/
def nallocs (m : PMap) : Nat :=
  (m.ranges.length + (ALLOC_INC - 1)) / ALLOC_INC + (m.singles.length + (ALLOC_INC - 1)) / ALLOC_INC

/-- `pfn2idx_map_addrange`; `none` = `KDUMP_ERR_SYSTEM` (realloc failed). -/
def addrange (ok : Nat → Bool) (m : PMap) (c : Range) : Option PMap :=
  if c.len > 1 ∨ c.len < -1 then
    if m.ranges.length % ALLOC_INC = 0 ∧ ok (nallocs m) = false then none
    else some { m with ranges := m.ranges ++ [⟨c.pfn, wrap (c.idx - 1), c.len⟩] }
  else if c.len ≠ 0 then
    if m.singles.length % ALLOC_INC = 0 ∧ ok (nallocs m) = false then none
    else some { m with singles := m.singles ++ [⟨c.pfn, wrap (c.idx - 1)⟩] }
  else some m

/-- `pfn2idx_map_add`. -/
def add (ok : Nat → Bool) (m : PMap) (c : Range) (pfn : Nat) : Option (PMap × Range) :=
  if c.len > 0 ∧ pfn = (c.pfn + 1) % W ∧ pfn ≠ 0 then
    some (m, ⟨pfn, (c.idx + 1) % W, c.len + 1⟩)
  else if c.len < 0 ∧ pfn = wrap (c.pfn - 1) ∧ c.pfn ≠ 0 then
    some (m, ⟨pfn, (c.idx + 1) % W, c.len - 1⟩)
  else if c.len = 1 ∧ pfn = wrap (c.pfn - 1) ∧ c.pfn ≠ 0 then
    some (m, ⟨pfn, (c.idx + 1) % W, -2⟩)
  else
    match addrange ok m c with
    | none => none
    | some m' => some (m', ⟨pfn, (c.idx + 1) % W, 1⟩)

/-- `pfn2idx_range_cmp(a, b) <= 0` -/
def rangeLe (a b : Range) : Bool := decide (a.pfn ≤ b.pfn)
/-- `pfn2idx_single_cmp(a, b) <= 0` -/
def singleLe (a b : Single) : Bool := decide (a.pfn ≤ b.pfn)

/-- `qsort` (trusted to sort) as a structurally recursive insertion sort over the
comparator of the C code; stable, like glibc's merge sort. -/
def insertBy {α : Type} (le : α → α → Bool) (x : α) : List α → List α
  | [] => [x]
  | y :: ys => if le x y then x :: y :: ys else y :: insertBy le x ys

def sortBy {α : Type} (le : α → α → Bool) : List α → List α
  | [] => []
  | x :: xs => insertBy le x (sortBy le xs)

/-- `pfn2idx_map_end`: flush the cursor, sort both arrays. -/
def mapEnd (ok : Nat → Bool) (m : PMap) (c : Range) : Option PMap :=
  match addrange ok m c with
  | none => none
  | some m' => some ⟨sortBy rangeLe m'.ranges, sortBy singleLe m'.singles⟩

/-- The loop of `make_xen_pfn_map_*` over the decoded list for one map. -/
def buildFrom (ok : Nat → Bool) : PMap × Range → List Nat → Option (PMap × Range)
  | s, [] => some s
  | (m, c), p :: ps =>
    match add ok m c p with
    | none => none
    | some s' => buildFrom ok s' ps

/-- start, add every listed frame in file order, end. -/
def build (ok : Nat → Bool) (junk : Nat) (l : List Nat) : Option PMap :=
  match buildFrom ok (mapStart junk) l with
  | none => none
  | some (m, c) => mapEnd ok m c

/-- First loop of `pfn2idx_map_search`; `none` = left the loop (`break` or end
of the array) without a result. -/
def scanRanges : List Range → Nat → Option Nat
  | [], _ => none
  | r :: rs, pfn =>
    if r.len ≥ 0 then
      if pfn < wrap (r.pfn - r.len + 1) then none
      else if pfn ≤ r.pfn then some (wrap (r.idx + pfn - r.pfn))
      else scanRanges rs pfn
    else
      if pfn < r.pfn then none
      else if pfn ≤ wrap (r.pfn - r.len - 1) then some (wrap (r.idx + r.pfn - pfn))
      else scanRanges rs pfn

/-- Second loop of `pfn2idx_map_search`. -/
def scanSingles : List Single → Nat → Nat
  | [], _ => IDX_NONE
  | s :: ss, pfn =>
    if pfn ≥ s.pfn then (if s.pfn = pfn then s.idx else scanSingles ss pfn)
    else IDX_NONE

/-- `pfn2idx_map_search` -/
def search (m : PMap) (pfn : Nat) : Nat :=
  match scanRanges m.ranges pfn with
  | some i => i
  | none => scanSingles m.singles pfn

/-! ## The dump -/

/-- `struct xen_p2m` as loaded by the (little-endian) host. -/
structure Entry where
  pfn : Nat
  mfn : Nat
  deriving DecidableEq, Repr, Inhabited

/-- byte `i` of a 64-bit value -/
def byteOf (x i : Nat) : Nat := x / 2^(8*i) % 256

/-- `be64toh` on a little-endian host -/
def bswap64 (x : Nat) : Nat :=
  byteOf x 0 * 2^56 + byteOf x 1 * 2^48 + byteOf x 2 * 2^40 + byteOf x 3 * 2^32 +
  byteOf x 4 * 2^24 + byteOf x 5 * 2^16 + byteOf x 6 * 2^8 + byteOf x 7

/-- `dump64toh` -/
def toh (be : Bool) (x : Nat) : Nat := if be then bswap64 x else x

structure Dump where
  /-- `.xen_p2m` (`KDUMP_XEN_NONAUTO`) or `.xen_pfn` (`KDUMP_XEN_AUTO`) -/
  nonauto : Bool
  be : Bool
  /-- `page_shift`; `page_size = 2^shift` -/
  shift : Nat
  /-- `xen_map_offset` -/
  mapOff : Nat
  /-- `xen_pages_offset` -/
  pagesOff : Nat
  /-- records of the page list section (for `.xen_pfn` the `mfn` field is unused) -/
  tbl : List Entry
  pfnmap : PMap
  mfnmap : PMap
  deriving Repr

def pfns (be : Bool) (tbl : List Entry) : List Nat := tbl.map fun e => toh be e.pfn
def mfns (be : Bool) (tbl : List Entry) : List Nat := tbl.map fun e => toh be e.mfn

/-- `make_xen_pfn_map_nonauto` / `make_xen_pfn_map_auto`: the two maps are fed
the decoded fields in file order (interleaving the two builds does not matter:
they share no state; each has its own allocation oracle). -/
def mkDump (okP okM : Nat → Bool) (junkP junkM : Nat) (nonauto be : Bool) (shift mapOff pagesOff : Nat)
    (tbl : List Entry) : Option Dump :=
  match build okP junkP (pfns be tbl) with
  | none => none
  | some pm =>
    if nonauto then
      match build okM junkM (mfns be tbl) with
      | none => none
      | some mm => some ⟨nonauto, be, shift, mapOff, pagesOff, tbl, pm, mm⟩
    else some ⟨nonauto, be, shift, mapOff, pagesOff, tbl, pm, ⟨[], []⟩⟩

inductive Err | nodata | overflow
  deriving DecidableEq, Repr, Inhabited

deriving instance DecidableEq for Except

/-- state left in `addrxlat_step_t` by a first-step function -/
structure Step where
  base : Nat
  idx0 : Nat
  remain : Nat
  elemsz : Nat
  deriving DecidableEq, Repr, Inhabited

/-- `flatmap_pread(…, &p2m, sizeof p2m, 0, xen_map_offset + idx * sizeof(struct xen_p2m))`:
the record with that index, or a failed read beyond the section. -/
def readEntry (d : Dump) (idx : Nat) : Option Entry := d.tbl[idx]?

/-- `xc_p2m_first_step` (`addr >> page_shift` is `/ 2^shift`,
`addr & (page_size - 1)` is `% 2^shift`, `<<` wraps at 64 bits). -/
def p2mFirstStep (d : Dump) (addr : Nat) : Except Err Step :=
  let idx := search d.pfnmap (addr / 2^d.shift)
  if idx = IDX_NONE then .error .nodata
  else match readEntry d idx with
    | none => .error .nodata
    | some e => .ok ⟨toh d.be e.mfn * 2^d.shift % W, addr % 2^d.shift, 1, 1⟩

/-- `xc_m2p_first_step` -/
def m2pFirstStep (d : Dump) (addr : Nat) : Except Err Step :=
  let idx := search d.mfnmap (addr / 2^d.shift)
  if idx = IDX_NONE then .error .nodata
  else match readEntry d idx with
    | none => .error .nodata
    | some e => .ok ⟨toh d.be e.pfn * 2^d.shift % W, addr % 2^d.shift, 1, 1⟩

/-- The walk of a custom method whose `next_step` is the identity: with
`remain = 1` the loop ends after adding `idx[0] * elemsz` to the base. -/
def finish (s : Step) : Nat := (s.base + s.idx0 * s.elemsz) % W

/-- guest-physical → machine-physical (`ADDRXLAT_SYS_METH_KPHYS_MACHPHYS`) -/
def p2m (d : Dump) (addr : Nat) : Except Err Nat := (p2mFirstStep d addr).map finish
/-- machine-physical → guest-physical (`ADDRXLAT_SYS_METH_MACHPHYS_KPHYS`) -/
def m2p (d : Dump) (addr : Nat) : Except Err Nat := (m2pFirstStep d addr).map finish

inductive AS | kphys | machphys | other
  deriving DecidableEq, Repr, Inhabited

/-- `xc_get_page`: file offset of the page, `nodata` = "Page not found".
`(off_t)idx << page_shift` is signed: leaving `[0, 2^63)` is the distinguished
result `overflow`. -/
def getPage (d : Dump) (as : AS) (addr : Nat) : Except Err Nat :=
  let pfn := addr / 2^d.shift
  let idx := if d.nonauto ∧ as = .machphys then search d.mfnmap pfn else search d.pfnmap pfn
  if idx = IDX_NONE then .error .nodata
  else
    let off := d.pagesOff + idx * 2^d.shift
    if off < 2^63 then .ok off else .error .overflow

end Kdf.Model.Xen

/-! ## Histories: the translation system is set up lazily and again after every option change

`vtop_init` (`vtop.c`) runs when the translation is flagged dirty (`revalidate_xlat`):
it clears the flag, calls `addrxlat_sys_os_init` — which first wipes every map and
method of the (same) translation system object (`sys_cleanup`) — then the
architecture's and the format's `post_addrxlat` hooks; `xc_post_addrxlat`
(`elfdump.c`) installs the custom P2M/M2P methods into the KPHYS↔MACHPHYS slots of a
non-auto-translated dump.  Setting or clearing a translation option
(`addrxlat.default.*`, `addrxlat.force.*`, `addrxlat.ostype`, …) only raises the flag.
Whether `addrxlat_sys_os_init` succeeds with the options at hand is a parameter
(`OsInit`); a set-up that fails leaves the flag raised, so that it is tried — and
reported — again. -/
namespace Kdf.Model.Xen

structure Xlat where
  /-- `ctx->xlat->dirty` -/
  dirty : Bool := true
  /-- the KPHYS→MACHPHYS and MACHPHYS→KPHYS slots hold the xc_core methods -/
  xc : Bool := false
  deriving DecidableEq, Repr, Inhabited

/-- outcome of `addrxlat_sys_os_init` with the current options -/
inductive OsInit
  | ok            -- set up (after the wipe)
  | failWiped     -- fails after `sys_cleanup`
  | failEarly     -- fails before touching the system (e.g. unknown architecture)
  deriving DecidableEq, Repr, Inhabited

/-- `dirty_xlat_hook` -/
def setOpt (x : Xlat) : Xlat := { x with dirty := true }

/-- `xc_post_addrxlat` -/
def xcPost (d : Dump) (x : Xlat) : Xlat := if d.nonauto then { x with xc := true } else x

/-- `vtop_init`; the result says whether the set-up succeeded -/
def vtopInit (d : Dump) (o : OsInit) (x : Xlat) : Bool × Xlat :=
  match o with
  | .ok => (true, xcPost d { dirty := false, xc := false })
  | .failWiped => (false, { dirty := true, xc := false })
  | .failEarly => (false, { x with dirty := true })

/-- `revalidate_xlat` (`kdump_get_addrxlat`, a read that needs translation) -/
def revalidate (d : Dump) (o : OsInit) (x : Xlat) : Bool × Xlat :=
  if x.dirty then vtopInit d o x else (true, x)

/-- `addrxlat_fulladdr_conv` KPHYS→MACHPHYS on the system as it is (no revalidation);
`none`: the slots hold whatever the architecture set up, not a function of the page list -/
def convP2m (d : Dump) (x : Xlat) (addr : Nat) : Option (Except Err Nat) :=
  if x.xc then some (p2m d addr) else none
def convM2p (d : Dump) (x : Xlat) (addr : Nat) : Option (Except Err Nat) :=
  if x.xc then some (m2p d addr) else none

end Kdf.Model.Xen

/-! ## Re-open histories: one `kdump_ctx_t` is given one dump after the other

`kdump_open_fd` / setting `file.fd` on a context that already has a dump open
(`open_dump`, `open.c`): `close_format` frees the format's private data (both frame
maps) and `clear_volatile_attrs` drops the "is set" flag of every attribute a dump
defines — the stored value stays; `xen.xlat` is such an attribute and
`get_xen_xlat` reads the stored number whether or not the flag is up.  The
translation is flagged dirty, then `open_common` (`elfdump.c`) walks the section
table of the new file: `.xen_p2m` stores `KDUMP_XEN_NONAUTO` and builds both maps,
`.xen_pfn` stores `KDUMP_XEN_AUTO` and builds the guest-frame map only.
`xc_get_page` and `xc_post_addrxlat` later read the stored mode. -/
namespace Kdf.Model.Xen

/-- what `open_common` finds in an xc_core file -/
structure Spec where
  /-- the page list section is `.xen_p2m` (else `.xen_pfn`) -/
  p2m : Bool
  be : Bool
  shift : Nat
  mapOff : Nat
  pagesOff : Nat
  tbl : List Entry
  deriving Repr

/-- the part of `kdump_ctx_t` the two views read -/
structure Ctx where
  /-- stored number of `xen.xlat` (`true` = `KDUMP_XEN_NONAUTO`; `KDUMP_XEN_AUTO` is 0) -/
  xenXlat : Bool := false
  /-- private data of the open dump; its `nonauto` field is the mode as read by `get_xen_xlat` -/
  file : Option Dump := none
  x : Xlat := {}
  deriving Repr

/-- `close_format` + `open_dump` up to the probe: maps freed, `xen.xlat` keeps its number,
the translation is flagged dirty (the system object keeps its methods until the next set-up) -/
def closeFormat (c : Ctx) : Ctx := { c with file := none, x := setOpt c.x }

/-- `set_xen_xlat` -/
def setXenXlat (c : Ctx) (v : Bool) : Ctx := { c with xenXlat := v }

/-- `open_common` on the section table of `s` (allocation oracles as in `mkDump`);
`none`: the open fails (`KDUMP_ERR_SYSTEM`) -/
def openCommon (okP okM : Nat → Bool) (junkP junkM : Nat) (c : Ctx) (s : Spec) : Option Ctx :=
  if s.p2m then
    let c := setXenXlat c true
    match build okP junkP (pfns s.be s.tbl) with
    | none => none
    | some pm =>
      match build okM junkM (mfns s.be s.tbl) with
      | none => none
      | some mm => some { c with file := some ⟨c.xenXlat, s.be, s.shift, s.mapOff, s.pagesOff, s.tbl, pm, mm⟩ }
  else
    let c := setXenXlat c false
    match build okP junkP (pfns s.be s.tbl) with
    | none => none
    | some pm => some { c with file := some ⟨c.xenXlat, s.be, s.shift, s.mapOff, s.pagesOff, s.tbl, pm, ⟨[], []⟩⟩ }

/-- `kdump_open_fd` on a context in any state -/
def openCtx (okP okM : Nat → Bool) (junkP junkM : Nat) (c : Ctx) (s : Spec) : Option Ctx :=
  openCommon okP okM junkP junkM (closeFormat c) s

/-- a history of opens on one context (every open succeeds, else `none`) -/
def openAll (okP okM : Nat → Bool) (junkP junkM : Nat) (c : Ctx) : List Spec → Option Ctx
  | [] => some c
  | s :: ss => (openCtx okP okM junkP junkM c s).bind fun c' => openAll okP okM junkP junkM c' ss

/-- the application asks for the translation after an open (`kdump_get_addrxlat`) -/
def fetchXlat (o : OsInit) (c : Ctx) : Bool × Ctx :=
  match c.file with
  | none => (false, c)
  | some d => let r := revalidate d o c.x; (r.1, { c with x := r.2 })

end Kdf.Model.Xen
