import Kdf.Model.Cache
import Kdf.Model.Pfn
/-!
# Model of the history-carrying layers between `kdump_read` and the dump file — C04

Five small components, each transcribed from the C code it names.  Everything a
component obtains from outside (the fill function of the page cache, the
`get_page` callback of libaddrxlat, the descriptor stream of an LKCD file, the
file's bytes) is a parameter.

1. `fetch`/`release`/`getPage` — `cache_get_page` + `cache_put_page` of
   `src/kdumpfile/read.c` on top of the C06 model of `cache.c`: the page cache
   composed with a fill function.  Buffer *contents* are tracked (`buf`); a
   buffer whose fill failed holds the distinguished value `none`.
2. `RCache` — the four-slot MRU read cache of `src/addrxlat/ctx.c`
   (`get_cache_buf`, `touch_cache_slot`, `bury_cache_buffer`).
3. `findClosestSC` — `find_closest_{mem,file}_{load,vload}` of `elfdump.c`
   *with* the `last_load`/`last_vload` shortcut (`Model.Pfn.findClosest` is the
   linear search without it).
4. `Lkcd` — the lazily built page index of `lkcd.c` at the level of its
   contract: the descriptors scanned so far are remembered, the scan resumes at
   `last_offset`, a repeated frame stops the scan with `corrupt` for good.  The
   block lists (`pfn_block`, gap tolerance, split) are *not* modelled; they are
   tied to this contract by the differential stream only.
5. `fcacheGet` — `fcache_get` of `fcache.c`: mmap versus read policy.
-/
namespace Kdf.Model.Hist
open Kdf.Model.Cache

/-! ## 1. Page cache composed with a fill function -/

/-- outcome of `cache_get_page` (the reference is still held on `got`) -/
inductive FetchOut (V E : Type)
  | busy
  | got (entry : Nat) (v : V)
  | fail (e : E)
  deriving DecidableEq, Repr

/-- outcome of a complete page access (`get_page` … `put_page`) -/
inductive Res (V E : Type)
  | busy
  | val (v : V)
  | fail (e : E)
  deriving DecidableEq, Repr

def Res.ofExcept {V E : Type} : Except E V → Res V E
  | .ok v => .val v
  | .error e => .fail e

/-- the cache proper plus the contents of its `cap` data buffers;
`none` = never filled, or left behind by a failed fill -/
structure PCache (V : Type) where
  c : Cache
  buf : List (Option V)
  deriving Repr

/-- `cache_alloc(cap, page_size)` -/
def PCache.init {V : Type} (cap : Nat) : PCache V := ⟨flush cap, List.replicate cap none⟩

def PCache.content {V : Type} (s : PCache V) (d : Nat) : Option V := s.buf.getD d none

/-- `cache_get_page(pio, fn)` with `fn = f`: look the key up; a valid entry is
returned as it is, any other entry is filled by `f` and inserted, or discarded
if `f` fails. -/
def fetch {V E : Type} (f : Nat → Except E V) (s : PCache V) (k : Nat) :
    Except Err (PCache V × FetchOut V E) :=
  match get s.c k with
  | .error x => .error x
  | .ok (c1, .busy) => .ok ({ s with c := c1 }, .busy)
  | .ok (_, .done) => .error (.ub "cache_get_entry returned neither an entry nor NULL")
  | .ok (c1, .entry i valid) =>
    match c1.dataOf i with
    | none => .error (.ub "cache_get_entry handed out an entry without a buffer")
    | some d =>
      if valid then
        match s.content d with
        | some v => .ok ({ s with c := c1 }, .got i v)
        | none => .error (.ub "valid entry whose buffer was never filled")
      else
        match f k with
        | .ok v =>
          match insert c1 i with
          | .ok (c2, _) => .ok ({ c := c2, buf := s.buf.set d (some v) }, .got i v)
          | .error x => .error x
        | .error e =>
          match discard c1 i with
          | .ok (c2, _) => .ok ({ c := c2, buf := s.buf.set d none }, .fail e)
          | .error x => .error x

/-- `cache_put_page(pio)` -/
def release {V : Type} (s : PCache V) (e : Nat) : Except Err (PCache V) :=
  match put s.c e with
  | .ok (c1, _) => .ok { s with c := c1 }
  | .error x => .error x

/-- one complete page access of `read_locked`: `get_page`, copy, `put_page` -/
def getPage {V E : Type} (f : Nat → Except E V) (s : PCache V) (k : Nat) :
    Except Err (PCache V × Res V E) :=
  match fetch f s k with
  | .error x => .error x
  | .ok (s1, .busy) => .ok (s1, .busy)
  | .ok (s1, .fail e) => .ok (s1, .fail e)
  | .ok (s1, .got i v) =>
    match release s1 i with
    | .ok s2 => .ok (s2, .val v)
    | .error x => .error x

/-- The fill function that a format's `read_page` implements, as a function of
`file.zero_excluded`: `g k = some e` marks an excluded page (read fails with `e`);
with zero-filling on, such a page is delivered as `zero`. -/
def fillZx {V E : Type} (base : Nat → Except E V) (g : Nat → Option E) (zero : V) (zx : Bool)
    (k : Nat) : Except E V :=
  match g k with
  | some e => if zx then .ok zero else .error e
  | none => base k

/-- `diskdump_get_page` / `sadump_get_page` (after the repair): with zero-filling
off, an excluded page is refused BEFORE the cache is consulted, so a page of
zeroes cached while zero-filling was on cannot be served. -/
def guardedGet {V E : Type} (base : Nat → Except E V) (g : Nat → Option E) (zero : V) (zx : Bool)
    (s : PCache V) (k : Nat) : Except Err (PCache V × Res V E) :=
  if zx then getPage (fillZx base g zero true) s k
  else
    match g k with
    | some e => .ok (s, .fail e)
    | none => getPage (fillZx base g zero false) s k

/-- what can happen to the page cache between two observed calls -/
inductive HOp
  | read (k : Nat)            -- a complete page access
  | pin (k : Nat)             -- an access whose reference is kept (read-cache slot of libaddrxlat)
  | unpin (e : Nat)           -- `put_page` of a kept reference
  | resize (cap : Nat)        -- `cache.size` set: `def_realloc_caches`
  deriving DecidableEq, Repr

def hstep {V E : Type} (f : Nat → Except E V) (s : PCache V) : HOp → Except Err (PCache V)
  | .read k => (getPage f s k).map (·.1)
  | .pin k => (fetch f s k).map (·.1)
  | .unpin e => release s e
  | .resize cap =>
    if cap = 0 then .error (.proto "cache.size = 0")
    else if (List.range (2 * s.c.cap)).any (fun i => s.c.refcnt i ≠ 0) then
      .error (.ub "def_realloc_caches frees a cache whose pages are still referenced")
    else .ok (PCache.init cap)

def hrun {V E : Type} (f : Nat → Except E V) : PCache V → List HOp → Except Err (PCache V)
  | s, [] => .ok s
  | s, op :: ops => match hstep f s op with
    | .ok s' => hrun f s' ops
    | .error x => .error x

/-! ## 2. The read cache of libaddrxlat (`src/addrxlat/ctx.c`) -/

def W : Nat := 2^64
def nslots : Nat := 4            -- READ_CACHE_SLOTS

/-- `addrxlat_buffer_t` as filled in by the `get_page` callback -/
structure Buffer (V : Type) where
  addr : Nat
  size : Nat
  data : V
  deriving DecidableEq, Repr

/-- one `read_cache_slot`; `size = 0` means empty, `data = none` is `ptr == NULL` -/
structure Slot (V : Type) where
  as : Nat
  addr : Nat
  size : Nat
  data : Option V
  deriving DecidableEq, Repr

structure RCache (V : Type) where
  slots : List (Slot V)      -- slot[0..3]
  order : List Nat           -- MRU chain: head = `mru`, last = `mru->prev`
  deriving DecidableEq, Repr

def RCache.init {V : Type} : RCache V :=
  ⟨List.replicate nslots ⟨0, 0, 0, none⟩, List.range nslots⟩

/-- `buf->size > addr->addr - buf->addr.addr && buf->addr.as == addr->as` (64-bit wrap) -/
def Slot.covers {V : Type} (s : Slot V) (as a : Nat) : Bool :=
  decide ((a + W - s.addr % W) % W < s.size) && decide (s.as = as)

/-- first slot, in array order, that covers the address -/
def RCache.find {V : Type} (rc : RCache V) (as a : Nat) : Option Nat :=
  (List.range rc.slots.length).find? fun i =>
    match rc.slots[i]? with | some s => s.covers as a | none => false

/-- `touch_cache_slot`: make the slot the most recently used one -/
def touch (order : List Nat) (i : Nat) : List Nat := i :: order.erase i
/-- the reordering of `bury_cache_buffer`: make the slot the next victim -/
def buryOrd (order : List Nat) (i : Nat) : List Nat := order.erase i ++ [i]

inductive RErr (E : Type)
  | cb (e : E)                -- the callback's status, passed on
  | recursion                 -- "Infinite read recursion": covering slot without data
  | oob                       -- an index outside `slot[]` (cannot happen)
  deriving DecidableEq, Repr

/-- `get_cache_buf(ctx, addr, &buf)`.  Returns the new cache, the list of
buffers handed back through `put_page`, and the buffer or the error. -/
def getCacheBuf {V E : Type} (g : Nat → Nat → Except E (Buffer V)) (rc : RCache V) (as a : Nat) :
    RCache V × List (Slot V) × Except (RErr E) (Buffer V) :=
  match rc.find as a with
  | some i =>
    match rc.slots[i]? with
    | none => (rc, [], .error .oob)
    | some s =>
      match s.data with
      | none => (rc, [], .error .recursion)
      | some v => ({ rc with order := touch rc.order i }, [], .ok ⟨s.addr, s.size, v⟩)
  | none =>
    match rc.order.getLast? with
    | none => (rc, [], .error .oob)
    | some l =>
      match rc.slots[l]? with
      | none => (rc, [], .error .oob)
      | some old =>
        let put := if old.size ≠ 0 then [old] else []
        match g as a with
        | .ok b =>
          ({ slots := rc.slots.set l ⟨as, b.addr, b.size, some b.data⟩, order := touch rc.order l }, put, .ok b)
        | .error e =>
          ({ rc with slots := rc.slots.set l ⟨as, a, 0, none⟩ }, put, .error (.cb e))

/-- `bury_cache_buffer(cache, addr)` -/
def bury {V : Type} (rc : RCache V) (as a : Nat) : RCache V :=
  match rc.find as a with
  | some i => { rc with order := buryOrd rc.order i }
  | none => rc

inductive ROp
  | get (as a : Nat)
  | bury (as a : Nat)
  deriving DecidableEq, Repr

def rstep {V E : Type} (g : Nat → Nat → Except E (Buffer V)) (rc : RCache V) : ROp → RCache V
  | .get as a => (getCacheBuf g rc as a).1
  | .bury as a => bury rc as a

def rrun {V E : Type} (g : Nat → Nat → Except E (Buffer V)) (rc : RCache V) (ops : List ROp) : RCache V :=
  ops.foldl (rstep g) rc

/-! ## 3. ELF: closest LOAD segment with the `last_load` shortcut -/

open Kdf.Model.Pfn in
/-- `find_closest_*_load(edp, paddr, dist)` as written (after the repair that
added `use_last_load`): if the flag is set try `edp->last_load` first,
otherwise search linearly; a hit of the linear search is remembered in either
case.  `last` is the index of the remembered segment in the sorted array; an
index outside the array (a dangling pointer) is the distinguished result `none`. -/
def findClosestSC (segs : List Seg) (useLast : Bool) (last : Option Nat) (paddr dist : Nat) :
    Option (Option Nat × Option Nat) :=
  let scan : Option Nat × Option Nat :=
    match findClosest segs paddr dist with
    | some i => (some i, some i)
    | none => (none, last)
  match last with
  | none => some scan
  | some l =>
    match segs[l]? with
    | none => none
    | some s =>
      if useLast ∧ paddr ≥ s.phys ∧ paddr - s.phys < s.size then some (some l, last) else some scan

open Kdf.Model.Pfn in
/-- a history of lookups, threading the remembered pointer -/
def lookupsSC (segs : List Seg) (useLast : Bool) : Option Nat → List (Nat × Nat) → Option (Option Nat)
  | last, [] => some last
  | last, (p, d) :: qs =>
    match findClosestSC segs useLast last p d with
    | none => none
    | some (_, last') => lookupsSC segs useLast last' qs

/-- a LOAD segment as `loads_disjoint` reads it (`start` = `phys` or `virt`) -/
structure Load where
  start : Nat
  memsz : Nat
  filesz : Nat
  deriving DecidableEq, Repr

/-- `loads_disjoint(seg, n, virt)`: every segment starts at or above the end
(`start + max(memsz, filesz)`, which must not wrap) of all preceding ones -/
def loadsDisjoint : List Load → Nat → Bool
  | [], _ => true
  | l :: rest, endp =>
    let size := if l.filesz > l.memsz then l.filesz else l.memsz
    if l.start < endp ∨ l.start + size ≥ W then false
    else loadsDisjoint rest (l.start + size)

/-! ## 4. LKCD: lazily built page index (contract level) -/

inductive LkOut (D : Type)
  | found (d : D)
  | notfound                 -- end marker / end of file reached
  | corrupt                  -- "Duplicate PFN"
  deriving DecidableEq, Repr

/-- scan state: how many descriptors have been indexed (`last_offset`) -/
structure Lkcd where
  pos : Nat
  deriving DecidableEq, Repr

def firstOf {D : Type} (l : List (Nat × D)) (p : Nat) : Option D :=
  (l.find? (fun x => x.1 = p)).map (·.2)

/-- `search_page_desc`: resume the scan at descriptor `i`; `fuel` = descriptors left -/
def scanFrom {D : Type} (descs : List (Nat × D)) (p : Nat) : Nat → Nat → Nat × LkOut D
  | _, 0 => (descs.length, .notfound)
  | i, fuel + 1 =>
    match descs[i]? with
    | none => (descs.length, .notfound)
    | some (q, d) =>
      if (firstOf (descs.take i) q).isSome then (i, .corrupt)
      else if q = p then (i + 1, .found d)
      else scanFrom descs p (i + 1) fuel

/-- `get_page_desc`: answer from the index if the frame has been seen, else scan on -/
def lkLookup {D : Type} (descs : List (Nat × D)) (s : Lkcd) (p : Nat) : Lkcd × LkOut D :=
  match firstOf (descs.take s.pos) p with
  | some d => (s, .found d)
  | none =>
    let r := scanFrom descs p s.pos (descs.length + 1 - s.pos)
    (⟨r.1⟩, r.2)

def lkRun {D : Type} (descs : List (Nat × D)) (s : Lkcd) (ps : List Nat) : Lkcd :=
  ps.foldl (fun s p => (lkLookup descs s p).1) s

/-! ## 5. `fcache_get`: mmap versus read -/

inductive Policy | never | always | try_ | tryOnce
  deriving DecidableEq, Repr

inductive FcOut
  | data (bytes : List Nat)   -- the bytes from `pos` to the end of the cache block
  | nodata                    -- refused: the block lies behind the end of the file (`KDUMP_ERR_EOF`)
  deriving DecidableEq, Repr

/-- the file as the kernel shows it: its bytes, zero beyond the end -/
def fileByte (file : List Nat) (i : Nat) : Nat := file.getD i 0

/-- `fcache_get_mmap` (mmap succeeds): refused iff the page of `pos` starts at or
beyond the end of the file; otherwise the rest of the mapped window -/
def getMmap (file : List Nat) (pgsz mmapsz pos : Nat) : FcOut :=
  if pos / pgsz * pgsz ≥ file.length then .nodata
  else .data ((List.range (mmapsz - pos % mmapsz)).map fun j => fileByte file (pos + j))

/-- `fcache_get_read`: a block that lies wholly behind the end of the file is refused (`KDUMP_ERR_EOF`), except block 0;
otherwise `pread` of one page, zero-filled -/
def getRead (file : List Nat) (pgsz pos : Nat) : FcOut :=
  if 0 < pos / pgsz * pgsz ∧ pos / pgsz * pgsz ≥ file.length then .nodata
  else .data ((List.range (pgsz - pos % pgsz)).map fun j => fileByte file (pos + j))

/-- `fcache_get`: returns the policy afterwards (`TRY_ONCE` settles) and the outcome -/
def fcacheGet (file : List Nat) (pgsz mmapsz : Nat) (pol : Policy) (pos : Nat) : Policy × FcOut :=
  match pol with
  | .never => (.never, getRead file pgsz pos)
  | .always => (.always, getMmap file pgsz mmapsz pos)
  | .try_ =>
    match getMmap file pgsz mmapsz pos with
    | .nodata => (.try_, getRead file pgsz pos)
    | r => (.try_, r)
  | .tryOnce =>
    match getMmap file pgsz mmapsz pos with
    | .nodata => (.never, getRead file pgsz pos)
    | r => (.always, r)

/-- the first `n` bytes at `pos` as a caller of `fcache_pread` sees them through one `fcache_get` -/
def FcOut.take : FcOut → Nat → Option (List Nat)
  | .data b, n => some (b.take n)
  | .nodata, _ => none

end Kdf.Model.Hist
