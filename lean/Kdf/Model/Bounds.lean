/-!
# Bounds / termination models of parsing steps whose indices come from the file — C03

Each function transcribes one C function at the level of its index arithmetic:
every access to a buffer is checked against the *actual* buffer length and
yields the distinguished result `oob` when it falls outside (never a default
value); every loop carries `fuel` and yields `fuel` when it runs out, so that
the termination theorems of `Kdf.Props.C03` have something to say.  What the
code obtains from outside (file bytes, read failures at EOF) is a parameter.

* `rle`        – `uncompress_rle` (util.c), exact (also the produced bytes)
* `notes`      – `do_notes` (notes.c): header reads and the ranges handed to the callback
* `tryHeader`, `readBitmap` – diskdump.c header sanity check and bitmap sizing
* `flatScan`   – record scan of `flatmap_file_init` (flatmap.c)
* `chunkIdx`   – range walk and offset-array index of `flatmap_get_chunk_flat`
* `cpuStateSz` – `setup_arch` of sadump.c (the division)
* `pageShift`  – `page_size_pre_hook` (util.c): power-of-two test and `ffsl - 1`
-/
namespace Kdf.Model.Bounds

abbrev W : Nat := 2^64
/-- largest `off_t` -/
abbrev OFF_MAX : Nat := 2^63 - 1

/-! ## uncompress_rle -/

inductive RleRes
  | ok (n : Nat) (out : List Nat)   -- returns 0, `*pdstlen = n`, bytes written to dst[0,n)
  | err                             -- returns -1
  | oob                             -- an access outside src[0,srclen) or dst[0,cap)
  | fuel
  deriving DecidableEq, Repr

/-- The `while (src < srcend)` loop.  `i` = src index, `remain` as in C, the
write position is `cap - remain`. -/
def rleGo (src : List Nat) (cap : Nat) : Nat → Nat → Nat → List Nat → RleRes
  | 0, _, _, _ => .fuel
  | f+1, i, remain, out =>
    if src.length ≤ i then .ok (cap - remain) out
    else match src[i]? with
      | none => .oob
      | some b =>
        if b = 0 then
          if src.length ≤ i+1 then .err
          else match src[i+1]? with
            | none => .oob
            | some cnt =>
              if cnt ≠ 0 then
                if remain < cnt then .err
                else if src.length ≤ i+2 then .err
                else match src[i+2]? with
                  | none => .oob
                  | some v =>
                    if cap < (cap - remain) + cnt then .oob      -- memset(dst, v, cnt)
                    else rleGo src cap f (i+3) (remain - cnt) (out ++ List.replicate cnt v)
              else
                if remain = 0 then .err
                else if cap ≤ cap - remain then .oob             -- *dst++ = byte
                else rleGo src cap f (i+2) (remain - 1) (out ++ [0])
        else
          if remain = 0 then .err
          else if cap ≤ cap - remain then .oob
          else rleGo src cap f (i+1) (remain - 1) (out ++ [b])

def rle (src : List Nat) (cap : Nat) : RleRes := rleGo src cap (src.length + 1) 0 cap []

/-! ## do_notes -/

/-- One note handed to the callback: type, offset and size of the name, offset and size of the descriptor
(offsets relative to the start of the note buffer). -/
structure Note where
  type : Nat
  nameOff : Nat
  namesz : Nat
  descOff : Nat
  descsz : Nat
  deriving DecidableEq, Repr

inductive NotesRes
  | done (notes : List Note)
  | oob
  | fuel
  deriving DecidableEq, Repr

/-- `roundup_size(sz)` = `((size_t)sz + 3) & ~3` (no wrap: `sz < 2^32`). -/
def roundup4 (n : Nat) : Nat := (n + 3) / 4 * 4

/-- `rd32 p` = the 32-bit word (in dump byte order) at offset `p` of the buffer of `total` bytes;
`p` = offset of `hdr`, `size` as in C. -/
def notesGo (rd32 : Nat → Nat) (total : Nat) : Nat → Nat → Nat → List Note → NotesRes
  | 0, _, _, _ => .fuel
  | f+1, p, size, acc =>
    if size < 12 then .done acc
    else if total < p + 12 then .oob                                -- hdr->n_namesz, n_descsz, n_type
    else
      let namesz := rd32 p
      let descsz := rd32 (p + 4)
      let ty := rd32 (p + 8)
      let descoff := 12 + roundup4 namesz
      if size < descoff + descsz then .done acc
      else if total < p + 12 + namesz ∨ total < p + descoff + descsz then .oob   -- what the callback may read
      else
        let size1 := size - descoff
        let size2 := if roundup4 descsz ≤ size1 then size1 - roundup4 descsz else 0
        notesGo rd32 total f (p + descoff + roundup4 descsz) size2
          (acc ++ [⟨ty, p + 12, namesz, p + descoff, descsz⟩])

def notes (rd32 : Nat → Nat) (total : Nat) : NotesRes := notesGo rd32 total (total / 12 + 1) 0 total []

/-! ## diskdump: try_header, read_bitmap -/

def MIN_PAGE_SIZE : Nat := 4096
def MAX_PAGE_SIZE : Nat := 262144

/-- `try_header`: `block_size` is an `int32_t` (given as `Int`), compared as `unsigned long`;
`maxcovered` is computed in 64 bits.  `true` = sanity checks passed. -/
def tryHeader (blockSize : Int) (bitmapBlocks maxMapnr : Nat) : Bool :=
  let bs := if blockSize < 0 then (W - blockSize.natAbs % W) % W else blockSize.toNat   -- (unsigned long) block_size
  if bs < MIN_PAGE_SIZE ∨ bs > MAX_PAGE_SIZE then false
  else if (8 * bitmapBlocks * bs) % W < maxMapnr then false
  else true

structure BmpReq where
  off : Nat          -- file offset of the bitmap that is read
  len : Nat          -- its size in bytes (`bitmapsize`)
  descoff : Nat      -- file offset of the page descriptors
  maxPfn : Nat       -- `max_pfn` after the clamp
  maxBitmapPfn : Nat -- number of bits scanned (before the `end_pfn` clamp)
  memOff : Nat       -- `ddp->mem_pagemap_off`
  deriving DecidableEq, Repr

inductive DdRes
  | corrupt                 -- rejected (negative sub-header size)
  | ovf                     -- some intermediate does not fit its C type (undefined / wrapped)
  | req (r : BmpReq)
  deriving DecidableEq, Repr

/-- `read_bitmap` up to the `flatmap_get_chunk` call.  `ps` = arch.page_size,
`sub` = `sub_hdr_size` (int32_t), `blocks` = `bitmap_blocks` (uint32_t), `maxPfn` = max_pfn on entry. -/
def readBitmap (ps : Nat) (sub : Int) (blocks maxPfn : Nat) : DdRes :=
  if sub < 0 then .corrupt
  else
    let off := (1 + sub.toNat) * ps
    let bitmapsize := blocks * ps
    let descoff := off + bitmapsize
    let maxbmp := bitmapsize * 8
    if off > OFF_MAX ∨ descoff > OFF_MAX ∨ bitmapsize ≥ W ∨ maxbmp ≥ W then .ovf
    else if maxPfn ≤ maxbmp / 2 then
      let bitmapsize' := (blocks / 2) * ps
      let off' := off + bitmapsize'
      let maxbmp' := bitmapsize' * 8
      if off' > OFF_MAX then .ovf
      else .req ⟨off', bitmapsize', descoff, (if maxPfn > maxbmp' then maxbmp' else maxPfn), maxbmp', off⟩
    else
      .req ⟨off, bitmapsize, descoff, (if maxPfn > maxbmp then maxbmp else maxPfn), maxbmp, off⟩

/-! ## flatmap_file_init: the record scan -/

structure Seg where
  pos : Nat          -- offset in the rearranged file
  size : Nat
  flatoff : Int      -- `flatoffs[segidx]` = position of the data in the flattened file − `pos`
  deriving DecidableEq, Repr

inductive ScanRes
  | ok (segs : List Seg)
  | corrupt
  | readerr          -- `fcache_pread` failed
  | fuel
  deriving DecidableEq, Repr

/-- `rd flatpos` = the two big-endian `int64_t` of the record header at `flatpos`
(`none`: the read fails; behind the end of the file a read yields zeroes, or fails
under `file.mmap_policy` ALWAYS). -/
def flatGo (rd : Nat → Option (Int × Int)) : Nat → Nat → List Seg → ScanRes
  | 0, _, _ => .fuel
  | f+1, flatpos, acc =>
    match rd flatpos with
    | none => .readerr
    | some (pos, size) =>
      if pos = -1 then .ok acc
      else if pos < 0 then .corrupt
      else if size ≤ 0 then .corrupt
      else
        let fp := flatpos + 16
        if size.toNat > OFF_MAX - fp then .corrupt
        else flatGo rd f (fp + size.toNat) (acc ++ [⟨pos.toNat, size.toNat, (fp : Int) - pos⟩])

def MDF_HEADER_SIZE : Nat := 4096

/-- `bound` = end of the last block of the file (behind it reads yield zeroes or fail). -/
def flatScan (rd : Nat → Option (Int × Int)) (bound : Nat) : ScanRes :=
  flatGo rd (bound / 17 + 2) MDF_HEADER_SIZE []

/-! ## flatmap_get_chunk_flat: range walk and index into `offs` -/

inductive ChunkRes
  | direct (filepos : Int)   -- `fcache_get_chunk(…, pos + offs[meth])`
  | copy                     -- `malloc` + `flatmap_pread`
  | oob                      -- `range` past the array, or `offs[meth]` outside the array
  deriving DecidableEq, Repr

/-- `for (off = pos; range < end && off > range->endoff; ++range) off -= range->endoff + 1;` -/
def walkRanges : List (Nat × Int) → Nat → Option ((Nat × Int) × Nat)
  | [], _ => none
  | r :: rs, off => if off > r.1 then walkRanges rs ((off + W - (r.1 + 1) % W) % W) else some (r, off)

def chunkIdx (ranges : List (Nat × Int)) (offs : List Int) (pos len : Nat) : ChunkRes :=
  match walkRanges ranges pos with
  | none => .copy
  | some (r, off) =>
    if r.2 ≠ -1 ∧ len ≤ (r.1 + 1 + W - off) % W then
      if r.2 < 0 then .oob
      else match offs[r.2.toNat]? with
        | none => .oob
        | some o => .direct (pos + o)
    else .copy

/-! ## sadump setup_arch: per-CPU state size -/

inductive DivRes
  | corrupt
  | divzero
  | val (q : Nat)
  deriving DecidableEq, Repr

def cpuStateSz (total cpus : Nat) : DivRes :=
  if cpus = 0 then .corrupt
  else if cpus = 0 then .divzero       -- `sz /= cpus`
  else .val (total / cpus)

/-! ## page_size_pre_hook -/

inductive ShiftRes
  | corrupt
  | badshift            -- `ffsl(0) - 1`: a shift count of -1
  | shift (s : Nat)
  deriving DecidableEq, Repr

/-- index of the lowest set bit, `fuel` bits examined -/
def ctz : Nat → Nat → Nat
  | 0, _ => 0
  | f+1, n => if n % 2 = 1 then 0 else 1 + ctz f (n / 2)

/-- `page_size != (page_size & ~(page_size - 1))` rejects everything that is not a power of two;
zero is rejected explicitly. -/
def pageShift (pageSize : Nat) : ShiftRes :=
  if pageSize = 0 then .corrupt
  else if pageSize ≠ 2 ^ ctz 64 pageSize then .corrupt
  else if pageSize = 0 then .badshift
  else .shift (ctz 64 pageSize)

end Kdf.Model.Bounds
