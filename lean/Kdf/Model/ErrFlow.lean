import Kdf.Model.Status
/-!
# The error-message discipline — C16

Which call clears the context's error string, which one prepends a link to it,
which one tolerates the failure of a part.  The string is modelled as the list
of its links, newest first (`render` joins them with ": "; the byte-level model
of one prepend is `Kdf.Model.Err.vadd`, theorem `vadd_chain`).

What the code obtains from outside — the outcome of a callback, of a page read,
of an allocation — is a parameter (`Part`): its status and, when it failed, the
links it left in the context.  The functions below transcribe, statement by
statement as far as the error string is concerned,

* `set_error` / `addrxlat_ctx_err` / `clear_error`,
* `get_symval`, `get_number`, `direct_read_ok` (`src/addrxlat/ctx.c`),
* `get_linux_pgtroot` + `map_linux_aarch64`, `map_linux_riscv64`
  (`src/addrxlat/aarch64.c`, `riscv64.c`), `map_linux_arm` (`src/addrxlat/arm.c`),
* `update_xen_extra_ver` (`src/kdumpfile/open.c`),
* `get_attr_blob`, `derived_attr_revalidate`, `derived_attr_update`
  (`src/kdumpfile/util.c`) below `kdump_get_attr` / `kdump_set_attr`.
-/
namespace Kdf.Model.ErrFlow

/-- the error string of a context: its links, newest first -/
abbrev Chain := List String

def render (c : Chain) : String := ": ".intercalate c

/-- a status together with the error string the context is left with -/
abbrev Res := Int × Chain

/-- `set_error(ctx, status, msg)`: prepends unless the status is OK; returns the status -/
def setError (c : Chain) (st : Int) (msg : String) : Res :=
  if st = 0 then (0, c) else (st, msg :: c)

/-- `clear_error(ctx)` -/
def clearError (_ : Chain) : Chain := []

/-- the outcome of a part that is not modelled (callback, read, allocation):
status and the links it prepended, newest first -/
structure Part where
  st : Int
  links : List String
  deriving Repr, Inhabited

/-- a part that obeys the property itself: a message iff it failed -/
def Part.wf (p : Part) : Prop := (p.st = 0 → p.links = []) ∧ (p.st ≠ 0 → p.links ≠ [])

def Part.ok : Part := ⟨0, []⟩

def Part.apply (p : Part) (c : Chain) : Res := (p.st, p.links ++ c)

/-! ### libaddrxlat -/

/-- `get_symval(ctx, name, &val)`; `cb` is the sym_value callback -/
def getSymval (cb : Part) (name : String) (c : Chain) : Res :=
  let r := cb.apply c
  setError r.2 r.1 ("Cannot resolve \"" ++ name ++ "\"")

/-- `get_number(ctx, name, &val)`; `cb` is the num_value callback -/
def getNumber (cb : Part) (name : String) (c : Chain) : Res :=
  let r := cb.apply c
  setError r.2 r.1 ("Cannot get number(" ++ name ++ ")")

/-- `direct_read_ok(ctx, addr)`: `capsOk` = the read callback advertises the
address space, `rd` = `get_cache_buf` on the page.  A failed read is tolerated:
the answer is `false` and the message of the read is dropped. -/
def directReadOk (capsOk : Bool) (rd : Part) (c : Chain) : Bool × Chain :=
  if !capsOk then (false, c)
  else
    let r := rd.apply c
    if r.1 ≠ 0 then (false, clearError r.2) else (true, r.2)

/-- `get_linux_pgtroot` of aarch64.c (`num` = "kimage_voffset") and riscv64.c
(`num` = "va_kernel_pa_offset") -/
def getLinuxPgtroot (numName : String) (swapper : Part) (capsKv : Bool) (rd num : Part) (c : Chain) : Res :=
  let r := getSymval swapper "swapper_pg_dir" c
  if r.1 ≠ 0 then setError r.2 r.1 "Cannot determine page table virtual address"
  else
    let d := directReadOk capsKv rd r.2
    if d.1 then (0, d.2)
    else
      let n := getNumber num numName d.2
      if n.1 ≠ 0 then setError n.2 n.1 ("Cannot determine " ++ numName) else (0, n.2)

/-- `map_linux_aarch64` / `map_linux_riscv64`: root from the option or from
`get_linux_pgtroot`; `physmaps` = `sys_set_physmaps` (aarch64 only, `Part.ok`
for riscv64); the linear map is optional: whatever `add_linux_linear_map` did,
the error is cleared. -/
def mapLinuxPgtroot (rootOpt : Bool) (numName : String) (swapper : Part) (capsKv : Bool) (rd num physmaps linear : Part)
    (c : Chain) : Res :=
  let r := if rootOpt then (0, c) else getLinuxPgtroot numName swapper capsKv rd num c
  if r.1 ≠ 0 then r
  else
    let p := physmaps.apply r.2
    if p.1 ≠ 0 then p
    else
      let l := linear.apply p.2
      (0, clearError l.2)

/-- `map_linux_arm`: `rootKnown` = the rootpgt option was given; `capsOk` = the
read callback advertises the address space of the root; `physBase` = the
phys_base option was given; `mapDirect` = `map_direct` for the root table,
`linDirect` = `set_linux_direct`. -/
def mapLinuxArm (rootKnown : Bool) (swapper stext : Part) (capsOk : Bool) (rd : Part) (physBase : Bool)
    (mapDirect linDirect : Part) (c : Chain) : Res :=
  let r : Res := if rootKnown then (0, c) else
    let s := getSymval swapper "swapper_pg_dir" c
    setError s.2 s.1 "Cannot determine page table virtual address"
  if r.1 ≠ 0 then r
  else
    -- status = get_symval(ctl->ctx, "_stext", ...): kept for later, not returned
    let sx := getSymval stext "_stext" r.2
    let d := directReadOk capsOk rd sx.2
    let m : Res :=
      if !d.1 && physBase then
        (if sx.1 ≠ 0 then setError d.2 sx.1 "Cannot determine PAGE_BASE" else mapDirect.apply d.2)
      else (0, d.2)
    if m.1 ≠ 0 then m
    else if sx.1 = 0 then
      let l := linDirect.apply m.2
      (0, if l.1 ≠ 0 then clearError l.2 else l.2)
    else (0, clearError m.2)

/-! ### libkdumpfile -/
open Kdf.Model.Status

def kdumpCORRUPT : Int := Kdf.Gen.Status.kdumpCodes.getD 4 99999

/-- `update_xen_extra_ver`: `attrSet` = xen.version.extra_addr has a value;
`reval` = `attr_revalidate`, `rd` = `read_string_locked`, `setAttr` =
`set_attr_string`.  Missing data is tolerated. -/
def updateXenExtraVer (attrSet : Bool) (reval rd setAttr : Part) (c : Chain) : Res :=
  if !attrSet then (0, c)
  else
    let v := reval.apply c
    if v.1 ≠ 0 then setError v.2 v.1 "Cannot locate Xen extra version"
    else
      let r := rd.apply v.2
      if r.1 = kdumpNODATA then (0, clearError r.2)
      else if r.1 ≠ 0 then setError r.2 r.1 "Cannot read Xen extra version"
      else
        let s := setAttr.apply r.2
        if s.1 ≠ 0 then setError s.2 s.1 "Cannot set Xen extra version" else (0, s.2)

/-- the raw blob a derived attribute (cpu.N.reg.*, cpu.N.pid) lives in -/
inductive Blob
  | present      -- set and long enough
  | cleared      -- the attribute exists but has no value
  | absent       -- there is no such attribute
  | short        -- set, but the register lies outside it
  deriving DecidableEq, Repr

/-- `get_attr_blob` -/
def getAttrBlob (b : Blob) (key : String) (c : Chain) : Res :=
  match b with
  | .cleared | .absent => setError c kdumpNODATA (key ++ " raw attribute not found")
  | _ => (0, c)

/-- `derived_attr_revalidate` / `derived_attr_update` (same shape) -/
def derivedAccess (b : Blob) (key : String) (c : Chain) : Res :=
  let r := getAttrBlob b key c
  if r.1 ≠ 0 then r
  else if b = .short then setError r.2 kdumpCORRUPT (key ++ " attribute too short")
  else (0, r.2)

/-- `kdump_get_attr` on a derived attribute that is set: clear, revalidate, wrap -/
def getDerived (b : Blob) (key : String) (_ : Chain) : Res :=
  let r := derivedAccess b key (clearError [])
  if r.1 ≠ 0 then setError r.2 r.1 "Value cannot be revalidated" else (0, r.2)

/-- `kdump_set_attr` on a derived attribute: clear, store, post-set hook `derived_attr_update` -/
def setDerived (b : Blob) (key : String) (_ : Chain) : Res :=
  derivedAccess b key (clearError [])

/-! ### VMCOREINFO look-ups by name: `kdump_vmcoreinfo_symbol`, `kdump_vmcoreinfo_line` -/

/-- what the name handed to a VMCOREINFO look-up meets -/
inductive VLook
  | noOs         -- no OS type is set: `ostype_attr` has no directory to look in
  | noTable      -- `<ostype>.vmcoreinfo.SYMBOL` / `.lines` has no value (no VMCOREINFO for this OS)
  | dot          -- the name starts with '.', the dictionary's "no fallback" mark: never looked up
  | miss         -- no such node below the table, or a node of another type (a directory)
  | cleared      -- the node is there but has no value
  | found
  deriving DecidableEq, Repr

/-- `ostype_attr(ctx, "vmcoreinfo.SYMBOL" | "vmcoreinfo.lines", &base)` -/
def ostypeAttr (l : VLook) (os table : String) (c : Chain) : Res :=
  match l with
  | .noOs => setError c kdumpNODATA "OS type is not set"
  | .noTable => setError c kdumpNODATA (os ++ "." ++ table ++ " is not set")
  | _ => (0, c)

/-- `kdump_vmcoreinfo_symbol` (`sym`) / `kdump_vmcoreinfo_line`: clear, find the table, look the name up -/
def vmcoreinfoLookup (sym : Bool) (l : VLook) (os : String) (_ : Chain) : Res :=
  let r := ostypeAttr l os (if sym then "vmcoreinfo.SYMBOL" else "vmcoreinfo.lines") (clearError [])
  if r.1 ≠ 0 then r
  else match l with
    | .dot | .miss => setError r.2 kdumpNODATA (if sym then "Symbol not found" else "No such VMCOREINFO line")
    | .cleared => setError r.2 kdumpNODATA (if sym then "Symbol has no value" else "Data has been cleared")
    | _ => (0, r.2)

/-! ### Allocations whose size comes from the dump file -/
def kdumpSYSTEM : Int := Kdf.Gen.Status.kdumpCodes.getD 1 99999

/-- `set_error(ctx, KDUMP_ERR_SYSTEM, msg)`: on an empty chain the text of `errno` becomes the innermost link -/
def setErrorSystem (c : Chain) (msg errnoText : String) : Res :=
  (kdumpSYSTEM, if c = [] then [msg, errnoText] else msg :: c)

/-- `ctx_malloc(size, ctx, desc)` (`src/kdumpfile/util.c`): `got` = `malloc(size)` returned a block.  The contract its
callers rely on (they return KDUMP_ERR_SYSTEM without a message of their own): NULL comes with the message set,
whatever the size. -/
def ctxMalloc (size : Nat) (desc : String) (got : Bool) (errnoText : String) (c : Chain) : Res :=
  if got then (0, c)
  else setErrorSystem c ("Cannot allocate " ++ desc ++ " (" ++ toString size ++ " bytes)") errnoText

/-- `kdump_set_attr("addrxlat.ostype", "linux")` on an s390x dump up to the allocation of the VMCOREINFO buffer in
`read_os_info_from_lowcore` (os_info page valid, entry size `size`): the call clears the error, the status of the
post-set hook is returned unwrapped.  `rest` = everything behind a successful allocation. -/
def s390OsInfoAlloc (size : Nat) (got : Bool) (errnoText : String) (rest : Part) (_ : Chain) : Res :=
  let a := ctxMalloc size "VMCOREINFO buffer" got errnoText (clearError [])
  if a.1 ≠ 0 then a else rest.apply a.2

end Kdf.Model.ErrFlow
