/-!
# Model of the page cache (`src/kdumpfile/cache.c`) — C06

The C structure is one circular doubly-linked list of `2·cap` entries, a
`split` index and four partition counters.  Read in `next` order the ring is

    U (unused) ++ GB (ghost probed, LRU→MRU) ++ B (probed, LRU→MRU; last = split)
      ++ P (precious, MRU→LRU) ++ GP (ghost precious, MRU→LRU)        (cyclic)

and the in-flight entries form a second list `F` (insertion order).  The model
state *is* these six lists; `split` and the counters are derived (`split` = the
ring element preceding the `P` arc, counters = arc lengths).  The harness
prints exactly this derived view of the real `struct cache`, so a code change
that breaks the correspondence between `split`/counters and the ring shows up
as a mismatch.

Each C function is mirrored as list surgery; the places where the C code reads
a value that no reachable state of a correct cache can leave undefined (an
uninitialised `zprec`, an empty unused partition) are explicit `ub` errors,
out-of-protocol calls are `proto` errors — never defaults.
-/
namespace Kdf.Model.Cache

inductive EState | probe | precious | valid
  deriving DecidableEq, Repr, Inhabited

structure Entry where
  key : Nat
  state : EState
  refcnt : Nat
  data : Option Nat          -- which of the `cap` buffers the entry owns
  deriving DecidableEq, Repr, Inhabited

structure Cache where
  cap : Nat
  ents : List Entry          -- index = entry number, length 2·cap
  U : List Nat
  GB : List Nat
  B : List Nat
  P : List Nat
  GP : List Nat
  F : List Nat
  dprobe : Nat
  hits : Nat
  misses : Nat
  deriving DecidableEq, Repr, Inhabited

inductive Err
  | ub (what : String)       -- the C code would read an undefined value / wrong arc
  | proto (what : String)    -- the caller violated the API protocol
  deriving DecidableEq, Repr, Inhabited

inductive Out
  | busy
  | entry (idx : Nat) (valid : Bool)
  | done
  deriving DecidableEq, Repr, Inhabited

/-- `cache_flush` on a freshly allocated cache. -/
def flush (cap : Nat) : Cache :=
  { cap := cap
    ents := (List.range (2*cap)).map fun i => ⟨0, .probe, 0, if i < cap then some i else none⟩
    U := (List.range (2*cap)).reverse
    GB := [], B := [], P := [], GP := [], F := []
    dprobe := 0, hits := 0, misses := 0 }

def Cache.ent (c : Cache) (i : Nat) : Entry := c.ents.getD i default
def Cache.key (c : Cache) (i : Nat) : Nat := (c.ent i).key
def Cache.refcnt (c : Cache) (i : Nat) : Nat := (c.ent i).refcnt
def Cache.dataOf (c : Cache) (i : Nat) : Option Nat := (c.ent i).data

def Cache.modEnt (c : Cache) (i : Nat) (f : Entry → Entry) : Cache :=
  { c with ents := c.ents.modify i f }

/-- zero-reference entries of an arc, in arc order -/
def zeroRef (c : Cache) (arc : List Nat) : List Nat := arc.filter fun i => c.refcnt i = 0

/-- number of referenced cached entries -/
def Cache.pinned (c : Cache) : Nat :=
  (c.P.filter fun i => c.refcnt i ≠ 0).length + (c.B.filter fun i => c.refcnt i ≠ 0).length

/-- `evict_entry(cache, cs, bias)`: returns the cache and the evicted entry.
`cs->zprobe` = least recently used zero-reference probed entry (first in `B`),
`cs->zprec` = least recently used zero-reference precious entry (last in `P`). -/
def evictEntry (c : Cache) (bias : Nat) : Except Err (Cache × Nat) :=
  let zb := zeroRef c c.B
  let zp := zeroRef c c.P
  if zb.length ≠ 0 ∧ (zp.length = 0 ∨ c.B.length + bias > c.dprobe) then
    match zb.head? with
    | some z => .ok ({ c with B := c.B.erase z, GB := c.GB ++ [z] }, z)
    | none => .error (.ub "evict_probe without candidate")
  else
    match zp.getLast? with
    | some z => .ok ({ c with P := c.P.erase z, GP := z :: c.GP }, z)
    | none => .error (.ub "evict_prec reads uninitialised zprec: no zero-reference cached entry")

/-- The entry of the unused partition whose buffer `reclaim_data` takes: start
at the last unused entry and step back while the preceding unused entry holds a
buffer (so buffer-less unused entries stay in front of buffer-holding ones). -/
def unusedDonor (c : Cache) (u : List Nat) : Option Nat :=
  match u.reverse with
  | [] => none
  | l :: rest => (l :: rest.takeWhile (fun i => (c.dataOf i).isSome)).getLast?

/-- `reclaim_data(cache, cs)`: returns the cache and the reclaimed buffer. -/
def reclaimData (c : Cache) : Except Err (Cache × Option Nat) :=
  if c.P.length + c.B.length + c.F.length < c.cap then
    match unusedDonor c c.U with
    | none => .error (.ub "reclaim_data: unused partition is empty")
    | some u => .ok (c.modEnt u (fun e => { e with data := none }), c.dataOf u)
  else do
    let (c1, z) ← evictEntry c 0
    .ok (c1.modEnt z (fun e => { e with data := none }), c1.dataOf z)

/-- `reuse_ghost_entry` after `reclaim_data`: the ghost `e` leaves `arc`, gets the
buffer and goes in flight as a precious entry. -/
def ghostHit (c : Cache) (e : Nat) (fromGP : Bool) : Except Err Cache := do
  let (c1, d) ← reclaimData c
  let c2 := c1.modEnt e (fun x => { x with data := d, state := .precious })
  .ok (if fromGP then { c2 with GP := c2.GP.erase e, F := c2.F ++ [e] }
       else { c2 with GB := c2.GB.erase e, F := c2.F ++ [e] })

/-- `get_missed_entry`. -/
def missed (c : Cache) (k : Nat) : Except Err (Cache × Nat) := do
  let (c1, e) ←
    match c.U.getLast? with
    | some u => pure ({ c with U := c.U.dropLast }, u)
    | none =>
      match c.GB with
      | g :: rest => pure ({ c with GB := rest }, g)
      | [] =>
        match c.GP.getLast? with
        | some g => pure ({ c with GP := c.GP.dropLast }, g)
        | none => throw (.ub "get_missed_entry: no unused and no ghost entry")
  let c2 ←
    if (c1.dataOf e).isNone then do
      let (c', z) ← evictEntry c1 1
      pure ((c'.modEnt e (fun x => { x with data := c'.dataOf z })).modEnt z (fun x => { x with data := none }))
    else pure c1
  let c3 := c2.modEnt e (fun x => { x with key := k, state := .probe })
  .ok ({ c3 with F := c3.F ++ [e] }, e)

/-- `cache_get_entry(cache, key)`. -/
def get (c : Cache) (k : Nat) : Except Err (Cache × Out) :=
  let incref (c : Cache) (e : Nat) := c.modEnt e (fun x => { x with refcnt := x.refcnt + 1 })
  match c.P.find? (fun i => c.key i = k) with
  | some e =>
    .ok (incref { c with P := e :: c.P.erase e, hits := c.hits + 1 } e, .entry e true)
  | none =>
  match c.B.reverse.find? (fun i => c.key i = k) with
  | some e =>
    .ok (incref { c with B := c.B.erase e, P := e :: c.P, hits := c.hits + 1 } e, .entry e true)
  | none =>
  match c.F.find? (fun i => c.key i = k) with
  | some e =>
    let c1 := c.modEnt e (fun x => { x with state := .precious })
    .ok (incref { c1 with misses := c1.misses + 1 } e, .entry e false)
  | none =>
  if c.pinned + c.F.length ≥ c.cap then .ok (c, .busy)
  else
  match c.GP.find? (fun i => c.key i = k) with
  | some e => do
    let ngb := c.GB.length
    let ngp := c.GP.length
    let delta := if ngb > ngp then ngb / ngp else 1
    let c1 := { c with dprobe := if c.dprobe > delta then c.dprobe - delta else 0 }
    let c2 ← ghostHit c1 e true
    .ok (incref { c2 with misses := c2.misses + 1 } e, .entry e false)
  | none =>
  match c.GB.reverse.find? (fun i => c.key i = k) with
  | some e => do
    let ngb := c.GB.length
    let ngp := c.GP.length
    let delta := if ngp > ngb then ngp / ngb else 1
    let c1 := { c with dprobe := if c.dprobe + delta < c.cap then c.dprobe + delta else c.cap }
    let c2 ← ghostHit c1 e false
    .ok (incref { c2 with misses := c2.misses + 1 } e, .entry e false)
  | none => do
    let (c1, e) ← missed c k
    .ok (incref { c1 with misses := c1.misses + 1 } e, .entry e false)

/-- `cache_insert(cache, entry)`. -/
def insert (c : Cache) (e : Nat) : Except Err (Cache × Out) :=
  if (c.ent e).state = .valid then .ok (c, .done)
  else if e ∈ c.F then
    let c1 := { c with F := c.F.erase e }
    let c2 := match (c.ent e).state with
      | .probe => { c1 with B := c1.B ++ [e] }
      | _ => { c1 with P := e :: c1.P }
    .ok (c2.modEnt e (fun x => { x with state := .valid }), .done)
  else .error (.proto "cache_insert of an entry that is neither valid nor in flight")

/-- `cache_put_entry(cache, entry)`. -/
def put (c : Cache) (e : Nat) : Except Err (Cache × Out) :=
  if c.refcnt e = 0 then .error (.proto "cache_put_entry without a reference")
  else .ok (c.modEnt e (fun x => { x with refcnt := x.refcnt - 1 }), .done)

/-- `cache_discard(cache, entry)`. -/
def discard (c : Cache) (e : Nat) : Except Err (Cache × Out) :=
  if c.refcnt e = 0 then .error (.proto "cache_discard without a reference")
  else
    let c1 := c.modEnt e (fun x => { x with refcnt := x.refcnt - 1 })
    if c1.refcnt e ≠ 0 then .ok (c1, .done)
    else if (c1.ent e).state = .valid then .ok (c1, .done)
    else if e ∈ c1.F then .ok ({ c1 with F := c1.F.erase e, U := c1.U ++ [e] }, .done)
    else .error (.proto "cache_discard of an entry that is neither valid nor in flight")

inductive Op
  | get (k : Nat) | insert (e : Nat) | put (e : Nat) | discard (e : Nat)
  deriving DecidableEq, Repr

def step (c : Cache) : Op → Except Err (Cache × Out)
  | .get k => get c k
  | .insert e => insert c e
  | .put e => put c e
  | .discard e => discard c e

/-! ### life cycle of a released cache (`cache_release`, and the orphan branches of `cache_put_entry` / `cache_discard`)

A page cache that is replaced (cache.size / page size changed, another file opened) may still have entries lent to
libaddrxlat.  `cache_release` frees it at once when no entry is referenced; otherwise it is marked `orphan` and the put or
discard that drops the last reference frees it.  `refs` = the reference counts of all `2 * cap` entries. -/
structure Life where
  refs : List Nat
  orphan : Bool := false
  freed : Bool := false
  deriving Repr, DecidableEq

def Life.idle (l : Life) : Bool := l.refs.all (· == 0)

/-- `cache_release` -/
def Life.release (l : Life) : Life :=
  if l.idle then { l with orphan := true, freed := true } else { l with orphan := true }

/-- `cache_put_entry` / `cache_discard` of entry `i` of an orphaned cache (the caller holds a reference) -/
def Life.drop (l : Life) (i : Nat) : Life :=
  let l' := { l with refs := l.refs.modify i (· - 1) }
  if l'.refs.getD i 0 == 0 && l'.orphan then l'.release else l'

end Kdf.Model.Cache
