/-!
# Ledger/effect model of the constructors and unwinders — C18

What is transcribed (from `src/kdumpfile/context.c`, `attr.c`, `vtop.c`,
`pfn.c`, after the `fix:` commits listed in REPORT_C18.txt):

* `alloc_ctx` + `init_addrxlat` (three allocations: object, addrxlat context,
  callback record) and its two error exits,
* `kdump_new` with `alloc_shared`, `attr_dict_new` (loop over the `g` global
  attributes), `create_addrxlat_attrs` (`x` further attributes, all owned by the
  dictionary), `xlat_new` (`calloc` + `addrxlat_sys_new`) and the exits
  `err_dict`, `err_shared`, `err`,
* `kdump_clone` for `flags = 0` and `flags = KDUMP_CLONE_XLAT`, with `k`
  per-context slots, `attr_dict_clone`, `xlat_clone`, `clone_xlat_attrs`
  (`m` allocations owned by the new dictionary) and the exits `err_xlat`,
  `err_dict`, `err_shared`, including the reference counts of the three
  objects shared with the original (`shared`, `dict`, `xlat`),
* `add_pfn_region` (grow-by-`RGN_ALLOC_INC` array),
* `per_ctx_alloc` / `per_ctx_free` over the `c` contexts of an object (all-or-nothing
  with roll-back), `lkcd_realloc_compressed` + `def_realloc_caches` as run by
  `kdump_set_attr("arch.page_size")` on an open LKCD dump (`setPageSize`),
* `mem_pagemap_revalidate` of diskdump / SADUMP under `kdump_get_attr` (`pagemapGet`:
  shared lock, `cache_lock`, growth steps of the region array).

The allocator is a parameter: the `failAt`-th allocation attempt of the call
fails (0 = none).  The state is a ledger: the blocks the call allocated and has
not freed (`live`, most recent first), the read/write holds of this thread on
`shared->lock`, a `bad` flag for an operation C leaves undefined or that never
returns (free of a block that is not live, unlock without a hold, write lock
while holding the lock, NULL dereference), and the event trace that the
correspondence stream compares with the intercepted trace of the real code.

`Fix` selects, per repaired defect, the code as it was (`false`) or as it is
(`true`); the theorems are about `Fix.all`, the `example`s in `Props/C18.lean`
exhibit the failing allocation index for each `false`.
-/
namespace Kdf.Model.Oom

inductive Ev where
  | a (i : Nat)      -- allocation attempt i succeeded
  | F (i : Nat)      -- allocation attempt i failed
  | f (i : Nat)      -- block of attempt i freed
  | R | W | U        -- rdlock / wrlock / unlock of shared->lock
  | M | m            -- lock / unlock of shared->cache_lock (a mutex)
  | r (i : Nat)      -- realloc attempt i grew an existing block in place of a new one
  deriving DecidableEq, Repr

structure St where
  cnt : Nat := 0
  failAt : Nat := 0
  live : List Nat := []
  rd : Nat := 0
  wr : Nat := 0
  bad : Bool := false
  /-- holds of this thread on shared->cache_lock (a non-recursive mutex) -/
  mtx : Nat := 0
  /-- reference counts of the pre-existing objects (clone only) -/
  shRef : Nat := 1
  dictRef : Nat := 1
  xlatRef : Nat := 1
  trace : List Ev := []       -- most recent first
  deriving DecidableEq, Repr

def St.init (n : Nat) : St := { failAt := n }

/-- `malloc`/`calloc`: the `failAt`-th attempt fails. -/
def alloc (s : St) : Option Nat × St :=
  if s.cnt + 1 = s.failAt then
    (none, { s with cnt := s.cnt + 1, trace := .F (s.cnt + 1) :: s.trace })
  else
    (some (s.cnt + 1), { s with cnt := s.cnt + 1, live := (s.cnt + 1) :: s.live, trace := .a (s.cnt + 1) :: s.trace })

/-- `free(p)` of a block: freeing something that is not live is undefined. -/
def free (i : Nat) (s : St) : St :=
  if i ∈ s.live then { s with live := s.live.erase i, trace := .f i :: s.trace }
  else { s with bad := true, trace := .f i :: s.trace }

def freeAll : List Nat → St → St
  | [], s => s
  | i :: is, s => freeAll is (free i s)

/-- a loop of `k` allocations that stops at the first failure; the blocks
obtained so far are returned most recent first -/
def allocN : Nat → St → Bool × List Nat × St
  | 0, s => (true, [], s)
  | k+1, s =>
    match alloc s with
    | (none, s') => (false, [], s')
    | (some i, s') =>
      let r := allocN k s'
      (r.1, r.2.1 ++ [i], r.2.2)

def rdlock (s : St) : St :=
  if s.wr > 0 then { s with bad := true, trace := .R :: s.trace }
  else { s with rd := s.rd + 1, trace := .R :: s.trace }

def wrlock (s : St) : St :=
  if s.wr > 0 ∨ s.rd > 0 then { s with bad := true, trace := .W :: s.trace }
  else { s with wr := 1, trace := .W :: s.trace }

def unlock (s : St) : St :=
  if s.wr > 0 then { s with wr := s.wr - 1, trace := .U :: s.trace }
  else if s.rd > 0 then { s with rd := s.rd - 1, trace := .U :: s.trace }
  else { s with bad := true, trace := .U :: s.trace }

def crash (s : St) : St := { s with bad := true }

/-- which repaired defects are present (`true` = code as repaired) -/
structure Fix where
  attrDictUnwind : Bool := true   -- attr_dict_new frees what it built
  xlatNullCheck : Bool := true    -- xlat_clone tests the result of xlat_new
  cloneUnlock : Bool := true      -- kdump_clone unlocks on the early exit
  cloneUnwind : Bool := true      -- kdump_clone error exits drop xlatctx and slots
  deriving DecidableEq, Repr

def Fix.all : Fix := {}

/-! ### alloc_ctx -/

structure CtxBlocks where
  ctx : Nat
  ax : Nat
  cb : Nat
  deriving DecidableEq, Repr

/-- `addrxlat_ctx_decref` of a context with one callback record -/
def axDecref (b : CtxBlocks) (s : St) : St := free b.ax (free b.cb s)

def allocCtx (s : St) : Option CtxBlocks × St :=
  match alloc s with
  | (none, s) => (none, s)
  | (some c, s) =>
    match alloc s with                       -- addrxlat_ctx_new
    | (none, s) => (none, free c s)          -- err: err_cleanup, free(ctx)
    | (some ax, s) =>
      match alloc s with                     -- addrxlat_ctx_add_cb
      | (none, s) => (none, free c (free ax s))
      | (some cb, s) => (some ⟨c, ax, cb⟩, s)

/-! ### kdump_new -/

/-- `shared_decref` of the new object's shared data when the count drops to
zero: wrlock, `shared_free` (unlock first), free. `ref` is the count before. -/
def sharedDecrefNew (sh : Nat) (ref : Nat) (s : St) : St :=
  let s := wrlock s
  if ref = 1 then free sh (unlock s)
  else unlock s                               -- still referenced: not freed

/-- `attr_dict_new`: dictionary + `g` attributes; returns the blocks -/
def attrDictNew (fx : Fix) (g : Nat) (s : St) : Option (Nat × List Nat) × St :=
  match alloc s with
  | (none, s) => (none, s)
  | (some d, s) =>
    match allocN g s with
    | (false, ids, s) =>
      if fx.attrDictUnwind then (none, free d (freeAll ids s))
      else (none, s)                          -- original: `return NULL`
    | (true, ids, s) => (some (d, ids), s)

/-- `xlat_new`: calloc + addrxlat_sys_new -/
def xlatNew (s : St) : Option (Nat × Nat) × St :=
  match alloc s with
  | (none, s) => (none, s)
  | (some x, s) =>
    match alloc s with
    | (none, s) => (none, free x s)
    | (some sys, s) => (some (x, sys), s)

/-- result: `true` = object returned -/
def kdumpNew (fx : Fix) (g x : Nat) (s : St) : Bool × St :=
  match allocCtx s with
  | (none, s) => (false, s)
  | (some b, s) =>
    match alloc s with                                   -- alloc_shared
    | (none, s) => (false, free b.ctx (axDecref b s))    -- err
    | (some sh, s) =>
      match attrDictNew fx g s with
      | (none, s) =>                                     -- err_shared (refcnt 1)
        (false, free b.ctx (axDecref b (sharedDecrefNew sh 1 s)))
      | (some (d, ids), s) =>                            -- dict holds a second reference on shared
        match allocN x s with                            -- create_addrxlat_attrs
        | (false, ids2, s) =>                            -- err_dict: attr_dict_free, then err_shared
          (false, free b.ctx (axDecref b (sharedDecrefNew sh 1 (free d (freeAll ids (freeAll ids2 s))))))
        | (true, ids2, s) =>
          match xlatNew s with
          | (none, s) =>
            (false, free b.ctx (axDecref b (sharedDecrefNew sh 1 (free d (freeAll ids (freeAll ids2 s))))))
          | (some _, s) => (true, s)

def kdumpNewTotal (g x : Nat) : Nat := 7 + g + x

/-! ### kdump_clone -/

/-- `xlat_clone` -/
def xlatClone (fx : Fix) (s : St) : Option (Nat × Nat) × St :=
  match xlatNew s with
  | (none, s) => if fx.xlatNullCheck then (none, s) else (none, crash s)   -- xlat->dirty = true on NULL
  | r => r

/-- `flags`: `false` = 0, `true` = KDUMP_CLONE_XLAT; `k` per-context slots;
`m` allocations made by `clone_xlat_attrs` (all owned by the new dictionary) -/
def kdumpClone (fx : Fix) (xl : Bool) (k m : Nat) (s : St) : Bool × St :=
  match allocCtx s with
  | (none, s) => (false, s)
  | (some b, s) =>
    let s := rdlock s
    match allocN k s with
    | (false, slots, s) =>
      let s := freeAll slots s
      let s := if fx.cloneUnlock then unlock s else s
      (false, free b.ctx (axDecref b s))
    | (true, slots, s) =>
      let s := unlock s
      let s := wrlock s
      let s := { s with shRef := s.shRef + 1 }           -- shared_incref_locked, list_add
      /- common tail of err_shared -/
      let errShared := fun (s : St) =>
        let s := { s with shRef := s.shRef - 1 }
        if fx.cloneUnwind then
          let s := freeAll slots s
          let s := unlock s
          free b.ctx (axDecref b s)
        else
          free b.ctx (unlock s)                          -- original: xlatctx and slots stay allocated
      if !xl then
        let s := { s with dictRef := s.dictRef + 1, xlatRef := s.xlatRef + 1 }
        (true, unlock s)
      else
        match alloc s with                               -- attr_dict_clone: calloc
        | (none, s) => (false, errShared s)
        | (some d, s) =>
          match alloc s with                             -- root directory attribute
          | (none, s) => (false, errShared (free d s))
          | (some root, s) =>
            let s := { s with dictRef := s.dictRef + 1, shRef := s.shRef + 1 }
            /- attr_dict_decref of the clone: attr_dict_free -/
            let dictFree := fun (extra : List Nat) (s : St) =>
              let s := free root (freeAll extra s)
              let s := { s with dictRef := s.dictRef - 1, shRef := s.shRef - 1 }
              free d s
            match xlatClone fx s with
            | (none, s) => (false, errShared (dictFree [] s))          -- err_dict
            | (some (xo, sys), s) =>
              match allocN m s with                                     -- clone_xlat_attrs
              | (false, ids, s) =>                                      -- err_xlat
                (false, errShared (dictFree [] (free xo (free sys (freeAll ids s)))))
              | (true, _, s) => (true, unlock s)

def kdumpCloneTotal (xl : Bool) (k m : Nat) : Nat := if xl then 7 + k + m else 3 + k

/-! ### add_pfn_region -/

structure PfnMap where
  regions : List Nat          -- the stored regions (payload abstracted to a number)
  cap : Nat                   -- allocated elements
  deriving DecidableEq, Repr

/-- `add_pfn_region` with `inc = RGN_ALLOC_INC`; `none` = NULL returned -/
def addRegion (inc : Nat) (mp : PfnMap) (rgn : Nat) (allocOk : Bool) : Option PfnMap × PfnMap :=
  if mp.regions.length % inc = 0 then
    if allocOk then
      let mp' : PfnMap := { regions := mp.regions ++ [rgn], cap := mp.regions.length + inc }
      (some mp', mp')
    else (none, mp)
  else
    let mp' : PfnMap := { mp with regions := mp.regions ++ [rgn] }
    (some mp', mp')

/-! ### per-context slots (`per_ctx_alloc`, `per_ctx_free`), LKCD page-size change -/

/-- A group of `k` allocations that is kept only as a whole: `per_ctx_alloc` over the
`k` contexts on `shared->ctx` (on failure the buffers obtained so far are released
again and the slot size is reset) and `cache_alloc` (`k` blocks). -/
def allocAll (k : Nat) (s : St) : Option (List Nat) × St :=
  match allocN k s with
  | (false, got, s) => (none, freeAll got s)
  | (true, got, s) => (some got, s)

/-- `per_ctx_alloc(shared, sz)` on an object with `c` contexts -/
def perCtxAlloc (c : Nat) (s : St) : Option (List Nat) × St := allocAll c s

/-- `per_ctx_free(shared, slot)`: one buffer per context -/
def perCtxFree (bufs : List Nat) (s : St) : St := freeAll bufs s

/-- The part of an open LKCD object that a page-size change touches: the buffers of
the compressed-data slot (`cbuf_slot`, one per context; `none` = slot `-1`) and the
blocks of the page cache. -/
structure PgObj where
  cbuf : Option (List Nat) := none
  cache : List Nat := []
  deriving DecidableEq, Repr

def PgObj.bufs (o : PgObj) : List Nat := o.cbuf.getD []

/-- `slotFirst = true`: the code as it is (new slot allocated before the old one is
released); `false`: the old slot released first. -/
structure PgFix where
  slotFirst : Bool := true
  deriving DecidableEq, Repr

/-- One run of the `arch.page_size` post-set chain on an open LKCD dump:
`lkcd_realloc_compressed` (new slot for `c` contexts, then the old slot is released),
then the parent hook `page_size_post_hook` -> `def_realloc_caches` (`cache_alloc` of
`m` blocks, then `cache_free` of the old cache). -/
def pgRound (fx : PgFix) (c m : Nat) (o : PgObj) (s : St) : Bool × PgObj × St :=
  let s := if fx.slotFirst then s else perCtxFree o.bufs s
  match perCtxAlloc c s with
  | (none, s) => (false, o, s)                  -- "Cannot allocate buffer for compressed data"
  | (some nw, s) =>
    let s := if fx.slotFirst then perCtxFree o.bufs s else s
    let o := { o with cbuf := some nw }
    match allocAll m s with
    | (none, s) => (false, o, s)                -- "Cannot allocate cache"
    | (some nc, s) => (true, { o with cache := nc }, freeAll o.cache s)

/-- `kdump_set_attr(ctx, "arch.page_size", v)` on an open LKCD dump under the write
lock: the chain runs twice (for the implied `arch.page_shift` update made by the
pre-set hook, then for the attribute itself). -/
def setPageSize (fx : PgFix) (c m : Nat) (o : PgObj) (s : St) : Bool × PgObj × St :=
  let s := wrlock s
  match pgRound fx c m o s with
  | (false, o, s) => (false, o, unlock s)
  | (true, o, s) =>
    match pgRound fx c m o s with
    | (false, o, s) => (false, o, unlock s)
    | (true, o, s) => (true, o, unlock s)

def setPageSizeTotal (c m : Nat) : Nat := 2 * (c + m)

/-! ### page map built on first use (`mem_pagemap_revalidate`) -/

def mlock (s : St) : St :=
  if s.mtx > 0 then { s with bad := true, trace := .M :: s.trace }     -- never returns
  else { s with mtx := 1, trace := .M :: s.trace }

def munlock (s : St) : St :=
  if s.mtx > 0 then { s with mtx := s.mtx - 1, trace := .m :: s.trace }
  else { s with bad := true, trace := .m :: s.trace }

/-- `realloc` of a block the object already has: an attempt that can fail, the
ledger does not change -/
def regrow (s : St) : Bool × St :=
  if s.cnt + 1 = s.failAt then
    (false, { s with cnt := s.cnt + 1, trace := .F (s.cnt + 1) :: s.trace })
  else
    (true, { s with cnt := s.cnt + 1, trace := .r (s.cnt + 1) :: s.trace })

def regrowN : Nat → St → Bool × St
  | 0, s => (true, s)
  | k+1, s =>
    match regrow s with
    | (false, s) => (false, s)
    | (true, s) => regrowN k s

/-- `unlockOnError = true`: the code as it is; `false`: the error exit returns with
`cache_lock` held. -/
structure PmFix where
  unlockOnError : Bool := true
  deriving DecidableEq, Repr

/-- `kdump_get_attr` of `memory.pagemap` while it is still invalid: shared read lock,
`cache_lock`, `pfn_regions_from_bitmap` with `g` growth steps of the region array (the
first one allocates it, the later ones enlarge it; what has been built stays with the
format data and is released by its cleanup), both locks released on every exit. -/
def pagemapGet (fx : PmFix) (g : Nat) (s : St) : Bool × St :=
  let s := mlock (rdlock s)
  let fail := fun (s : St) => (false, unlock (if fx.unlockOnError then munlock s else s))
  match g with
  | 0 => (true, unlock (munlock s))
  | g+1 =>
    match alloc s with
    | (none, s) => fail s
    | (some _, s) =>
      match regrowN g s with
      | (false, s) => fail s
      | (true, s) => (true, unlock (munlock s))

/-! ### the file set grows (num_files_pre_hook) -/

/-- `kdump_set_attr(file.set.number)` growing the file set by `k` slots of `per` blocks each (the
slot directory and its template, `fd`, `name`) under the writer lock of `kdump_set_attr`:
`num_files_pre_hook` keeps the new slots only as a whole — on a failure every slot created so far,
the partial one included, is deallocated again. -/
def numFilesGrow (per k : Nat) (s : St) : Bool × St :=
  let r := allocAll (per * k) (wrlock s)
  (r.1.isSome, unlock r.2)

/-! ### canonical trace (what the correspondence stream compares) -/

def Ev.show : Ev → String
  | .a i => s!"a{i}" | .F i => s!"F{i}" | .f i => s!"f{i}" | .R => "R0" | .W => "W0" | .U => "U0" | .M => "M1" | .m => "m1" | .r i => s!"r{i}"

/-- insertion sort of a burst of frees -/
def insertSorted (i : Nat) : List Nat → List Nat
  | [] => [i]
  | j :: js => if i ≤ j then i :: j :: js else j :: insertSorted i js

/-- chronological trace with every maximal run of frees sorted by block id -/
def canon (tr : List Ev) : List String :=
  let rec go : List Ev → List Nat → List String
    | [], burst => burst.map (fun i => s!"f{i}")
    | .f i :: es, burst => go es (insertSorted i burst)
    | e :: es, burst => burst.map (fun i => s!"f{i}") ++ (e.show :: go es [])
  go tr.reverse []

end Kdf.Model.Oom
