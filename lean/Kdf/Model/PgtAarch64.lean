import Kdf.Model.Pgt
/-!
# Model of `src/addrxlat/aarch64.c`: `pgt_aarch64`, `pgt_aarch64_lpa`,
`pgt_aarch64_lpa2` — C02

The three C functions are textually identical apart from
 * the expression that extracts the address from the descriptor, and
 * the `MAX_REGION_MASK*` constant that bounds the size of a block.
Everything after `step->base.as = step->meth->target_as;` is modelled once in
`tail` (parameterised by the constant), the three handlers are transcribed
statement by statement in front of it.  (Library HEAD b158e8f: the LPA/LPA2 address
extraction uses the field widths `48` and `50`; the earlier `47`/`49` lost the top
bit of the in-place address field.)

All three use `first_step_pgt_generic` (no check of the address bits above the
translated range), see `firstStep` in `Pgt.lean`.
-/
namespace Kdf.Model.PgtAarch64
open Kdf.Model.Pgt

/-- `pf_page_size(pf)`: `(addrxlat_addr_t)1 << pf->fieldsz[0]` -/
def pageSize (pf : PagingForm) : Nat := 2^(fieldAt pf 0) % W
/-- `pf_page_mask(pf)`: `pf_page_size(pf) - 1` -/
def pageMask (pf : PagingForm) : Nat := (pageSize pf + W - 1) % W
/-- `x & ~m` on 64-bit values -/
def andNot (x m : Nat) : Nat := x &&& ((W - 1) ^^^ m)

def PA_MAX_BITS : Nat := 48                            -- PA_MAX_BITS
def PA_MASK : Nat := addrMask PA_MAX_BITS              -- PA_MASK = ADDR_MASK(PA_MAX_BITS)
def MAX_REGION_MASK : Nat := addrMask 30               -- MAX_REGION_MASK = ADDR_MASK(30)
def MAX_REGION_MASK_LPA : Nat := addrMask 42           -- MAX_REGION_MASK_LPA = ADDR_MASK(42)
def MAX_REGION_MASK_LPA2 : Nat := addrMask 39          -- MAX_REGION_MASK_LPA2 = ADDR_MASK(39)
def PTE_TYPE_BLOCK : Nat := 1                          -- enum pte_type
def PTE_TYPE_TABLE : Nat := 3                          -- (not referenced by the C code)

/-- The part common to the three handlers, entered with `step->base.addr = addr`
already assigned:
```
step->base.as = step->meth->target_as;
if (PTE_TYPE(pte) == PTE_TYPE_BLOCK) {
    mask = pf_table_mask(pf, step->remain);
    if (step->remain == 1 || mask > MAX_REGION_MASK*) return pte_invalid(step);
    step->base.addr &= ~mask;
    return pgt_huge_page(step);
}
step->base.addr &= ~pf_page_mask(pf);
if (step->remain == 1) step->elemsz = 1;
return ADDRXLAT_OK;
``` -/
def tail (t : Nat) (pf : PagingForm) (maxRegionMask : Nat) (s : Step) (pte addr : Nat) :
    Except XStatus Step :=
  let s := { s with base := ⟨addr, t⟩ }
  if bits pte 0 2 = PTE_TYPE_BLOCK then                 -- PTE_TYPE(pte) = PTE_VAL(pte, 0, 2)
    let mask := tableMask pf s.remain
    if s.remain = 1 ∨ mask > maxRegionMask then .error .invalid
    else .ok (hugePage pf { s with base := ⟨andNot s.base.addr mask, t⟩ })
  else
    let s1 := { s with base := ⟨andNot s.base.addr (pageMask pf), t⟩ }
    .ok (if s.remain = 1 then { s1 with elemsz := 1 } else s1)

/-- `pgt_aarch64` -/
def pgtAarch64 (mem : Mem) (t pteMask : Nat) (pf : PagingForm) (s : Step) : Except XStatus Step := do
  let (s, pte) ← readPte mem 8 pteMask s                -- read_pte64
  if bits pte 0 1 = 0 then throw .notpresent            -- !PTE_VALID(pte) = PTE_VAL(pte, 0, 1)
  let addr := pte &&& PA_MASK                           -- pte & PA_MASK
  tail t pf MAX_REGION_MASK s pte addr

/-- `pgt_aarch64_lpa` -/
def pgtAarch64Lpa (mem : Mem) (t pteMask : Nat) (pf : PagingForm) (s : Step) : Except XStatus Step := do
  let (s, pte) ← readPte mem 8 pteMask s                -- read_pte64
  if bits pte 0 1 = 0 then throw .notpresent            -- !PTE_VALID(pte)
  -- PTE_VAL(pte, 0, 48) | (PTE_VAL(pte, 12, 4) << 48)
  let addr := bits pte 0 48 ||| (bits pte 12 4 * 2^48 % W)
  tail t pf MAX_REGION_MASK_LPA s pte addr

/-- `pgt_aarch64_lpa2` -/
def pgtAarch64Lpa2 (mem : Mem) (t pteMask : Nat) (pf : PagingForm) (s : Step) : Except XStatus Step := do
  let (s, pte) ← readPte mem 8 pteMask s                -- read_pte64
  if bits pte 0 1 = 0 then throw .notpresent            -- !PTE_VALID(pte)
  -- PTE_VAL(pte, 0, 50) | (PTE_VAL(pte, 8, 2) << 50)
  let addr := bits pte 0 50 ||| (bits pte 8 2 * 2^50 % W)
  tail t pf MAX_REGION_MASK_LPA2 s pte addr

end Kdf.Model.PgtAarch64
