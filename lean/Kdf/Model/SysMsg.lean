import Kdf.Model.Sys
/-!
# The error string across `do_op` / `addrxlat_op` / `addrxlat_fulladdr_conv` (`src/addrxlat/sys.c`) — C16

`Kdf.Model.Sys` (C09) models which address and status the translation-system
interpreter produces.  This module threads ONE more piece of state through the
same loops, statement by statement: whether the context's error string is
non-empty (`true`) or empty (`false`).

* `addrxlat_op` starts with `clear_error`; each of its early exits is a
  `set_error`; the pass-through runs the callback on the cleared context.
* `do_op`: for every alternative that passes the `map_expect_as` test and whose
  map is not NULL, `clear_error` runs BEFORE `internal_map_search`.  A LINEAR
  method is resolved by a shortcut that touches no message; a walk that fails
  leaves its message (and the loop goes on to the next alternative exactly on
  NOMETH / NODATA with that message still in the context); a walk that succeeds
  leaves what it found, i.e. the cleared string.
* the final `set_error(... "No way to translate")`.

Parameters (assumed to obey the property themselves): a failing `internal_walk`
has set a message, a successful one has not added any; the callback of
`addrxlat_fulladdr_conv` (`storeaddr`) does not touch the context.
-/
namespace Kdf.Model.SysMsg
open Kdf.Model.Pgt Kdf.Model.Sys
open Kdf.Model

/-- inner loop of `do_op` with the message flag -/
def tryAltM (sys : Sys) (caps : Nat) (wk : WalkFn) : List Nat → FullAddr → Bool → AltRes × Bool
  | [], a, m => (.next a, m)
  | mi :: ms, a, m =>
    if a.as ≠ mapExpectAs mi then tryAltM sys caps wk ms a m
    else match sys.maps[mi]? with
      | none => (.done .oob, m)
      | some none => tryAltM sys caps wk ms a m
      | some (some mp) =>
        -- `clear_error(ctl->ctx)`: from here on the flag is `false`
        let idx := Map.mapSearch mp a.addr
        if idx = Map.NONE then tryAltM sys caps wk ms a false
        else match methAt sys idx with
          | none => (.done .oob, false)
          | some (.linear t off) =>
            let lb : FullAddr := ⟨(a.addr + off) % W, t⟩
            if capsHas caps t then (.done (.call lb), false) else (.next lb, false)
          | some meth =>
            match wk meth a.addr with
            | .ok s => if capsHas caps s.base.as then (.done (.call s.base), false) else (.next s.base, false)
            | .error e =>
              if e = .nometh ∨ e = .nodata then tryAltM sys caps wk ms a true
              else (.done (.fail e), true)

/-- outer loop of `do_op` with the message flag -/
def doOpM (sys : Sys) (caps : Nat) (wk : WalkFn) : List (List Nat) → FullAddr → Bool → OpRes × Bool
  | [], _, _ => (.fail .nometh, true)            -- `set_error(... "No way to translate")`
  | alt :: rest, a, m =>
    match tryAltM sys caps wk alt a m with
    | (.done r, m') => (r, m')
    | (.next a', m') => doOpM sys caps wk rest a' m'

/-- `addrxlat_op` called from outside with the message flag (`true` = the error string is non-empty
when the call returns, the callback being `storeaddr`) -/
def opTopM (c : Cfg) (caps : Nat) (a : FullAddr) : OpRes × Bool :=
  match pre c caps a with
  | .error (.call fa) => (.call fa, false)       -- `clear_error`, then the callback
  | .error r => (r, true)                        -- the `set_error` exits
  | .ok (sys, ch) =>
    let mem : Mem := fun as addr size =>
      if capsHas c.readCaps as then c.pm as addr size
      else nestedRead c.pm size (op c (MAX_INFLIGHT - 1) c.readCaps [(a, ch)] ⟨addr, as⟩)
    doOpM sys caps (walk noExtra mem) ch.alts a false

/-- `addrxlat_fulladdr_conv`: status, `*faddr` afterwards, message flag -/
def convM (c : Cfg) (target : Nat) (a : FullAddr) : Option (XStatus × FullAddr × Bool) :=
  match opTopM c (capsOf target) a with
  | (.call fa, m) => some (.ok, fa, m)
  | (.fail e, m) => some (e, a, m)
  | (.oob, _) => none

end Kdf.Model.SysMsg
