import Kdf.Model.Pgt
/-!
# Decision points of `addrxlat_sys_os_init` that probe the image's page tables

Executable twins of three pieces of set-up code (C08, image stream):

* `checkPae`       — `check_pae()` of src/addrxlat/ia32.c: which paging form (PAE / non-PAE) an ia32 hierarchy has
  when the `phys_bits` option is absent;
* `ia32LinuxRoot`  — `get_linux_pgt_root()` of src/addrxlat/ia32.c: which root page table the hardware walk uses;
* `xenTextPick`    — the probe sequence of `map_xen_x86_64()` (src/addrxlat/x86_64.c) for the Xen text mapping, with
  `isXenKtext` = `is_xen_ktext()`.

No Mathlib.  Memory, read capabilities and the in-flight maps are the `Mem` argument (Driver.Os builds it the way
`read32`/`read64` see memory at that point of the set-up).
-/
namespace Kdf.Model.OsPick
open Kdf.Model.Pgt

def MACHPHYS : Nat := 1
def KV : Nat := 2

def ia32Pf : PagingForm := ⟨.ia32, [12, 10, 10]⟩
def ia32PfPae : PagingForm := ⟨.ia32Pae, [12, 9, 9, 2]⟩

/-- physical address a complete page-table walk of `va` ends at (`internal_walk` status OK, `step.base.addr`) -/
def walkAddr (extra : Extra) (mem : Mem) (root : FullAddr) (pf : PagingForm) (va : Nat) : Option Nat :=
  match walk extra mem (.pgt MACHPHYS root 0 pf) va with
  | .ok s => some s.base.addr
  | .error _ => none

/-- `check_pae`: the PAE form is taken iff the start of the direct mapping walks to physical 0 under it, else the
non-PAE form under the same condition, else the set-up fails.  `memPae` / `memNon`: memory as seen with the physical
maps of either form installed.  Result: `phys_bits`. -/
def checkPae (extra : Extra) (memPae memNon : Mem) (root : FullAddr) (direct : Nat) : Option Nat :=
  if walkAddr extra memPae root ia32PfPae direct = some 0 then some 52
  else if walkAddr extra memNon root ia32Pf direct = some 0 then some 32
  else none

/-- `get_linux_pgt_root` (ia32): the option wins, then CR3 — the whole register value: a PAE PDPT is 32-byte aligned,
the page directory of a non-PAE kernel page aligned, Linux keeps the flag bits PWT/PCD clear —, then `swapper_pg_dir`. -/
def ia32LinuxRoot (opt : Option FullAddr) (cr3 sym : Option Nat) : FullAddr :=
  match opt, cr3, sym with
  | some r, _, _ => r
  | none, some c, _ => ⟨c, MACHPHYS⟩
  | none, none, some v => ⟨v, KV⟩
  | none, none, none => ⟨0, NOADDR⟩

/-- `is_xen_ktext`: the address is mapped and the walk takes exactly four steps (a 2 MiB page of a 4-level hierarchy) -/
def isXenKtext (extra : Extra) (mem : Mem) (m : Meth) (addr : Nat) : Bool :=
  match launchSteps extra mem m addr with
  | (steps, .ok _) => steps.length == 5
  | (_, .error _) => false

def XEN_TEXT_4_4 : Nat := 0xffff82d080000000
def XEN_TEXT_4_3 : Nat := 0xffff82c4c0000000
def XEN_TEXT_4_0 : Nat := 0xffff82c480000000
def XEN_TEXT_3_2 : Nat := 0xffff828c80000000
def XEN_TEXT_4_0dev : Nat := 0xffff828880000000

/-- probe order of `map_xen_x86_64` (direct mapping found at `XEN_DIRECTMAP`); the flag: the direct mapping is 1 TiB -/
def xenTextOrder : List (Nat × Bool) :=
  [(XEN_TEXT_4_4, false), (XEN_TEXT_4_3, false), (XEN_TEXT_4_0, false), (XEN_TEXT_3_2, true), (XEN_TEXT_4_0dev, false)]

/-- the text mapping chosen: the first candidate that is a 2 MiB mapping; `none`: text inside the 1 TiB direct mapping -/
def xenTextPick (is2m : Nat → Bool) : Option (Nat × Bool) :=
  xenTextOrder.find? (fun p => is2m p.1)

end Kdf.Model.OsPick
