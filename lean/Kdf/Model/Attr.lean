/-
  Model of the attribute store of libkdumpfile (src/kdumpfile/attr.c, the
  attribute parts of open.c, context.c, vmcoreinfo.c) — property C13.

  Representation.  All `struct attr_data` of all dictionaries live in one list
  `St.nodes`, NEWEST FIRST.  new_attr() links a node at the head of its parent's
  sibling list and alloc_attr() at the head of its hash bucket, so
    * the sibling list of a directory = the nodes whose `parent` is that
      directory, in list order,
    * a hash bucket of a dictionary   = the nodes of that dictionary with that
      bucket index, in list order,
  and dealloc_attr() is removal from the list.  The hash function is a
  parameter `h` (the driver passes the real phash/fold_hash; the theorems hold
  for every `h`).  Values are opaque tokens (`num:5`, `str:4142`, `blob:3`) —
  the store never interprets them except for the VMCOREINFO parser, which gets
  the text of the blob as an argument.

  Transcribed: keycmp, path_hash/attr_hash_index, lookup_dir_attr (leading dot
  = no fallback, fallback chain), lookup_attr, new_attr, create_attr_path (leading dot refused,
  children only below a directory), instantiate_path, set_attr (flags, skip-hooks
  rule), check_set_attr, clear_attr, clear_volatile, dealloc_attr,
  attr_iter_start / set_iter_pos / iter_next, attr_dict_clone, clone_attr,
  clone_subtree, clone_attr_path, clone_xlat_attrs, the hooks that change the
  tree: num_files_pre_hook, vmcoreinfo_raw_post_hook / clear hook,
  add_parsed_row, lines_post_hook (without PAGESIZE / OSRELEASE /
  NUMBER(phys_base)), ostype_pre_hook (value check only), kdump_open_fdset +
  open_dump as "clear volatile, then the sets the probe performs" (the sets are
  a parameter).
-/
namespace Kdf.Model.Attr

inductive Ty | nil | dir | num | addr | str | bmp | blob
  deriving DecidableEq, Repr, Inhabited

inductive Hook | none | vmciRaw | vmciLine | numFiles | ostype | utsRelease
  deriving DecidableEq, Repr, Inhabited

inductive Status | ok | system | notimpl | nodata | invalid | nokey
  deriving DecidableEq, Repr, Inhabited

structure Node where
  id : Nat
  parent : Option Nat
  key : String
  ty : Ty
  isset : Bool
  persist : Bool
  val : String
  dict : Nat
  tmpl : Nat
  hook : Hook
  hidx : Nat
  fidx : Nat
  deriving Repr, Inhabited

structure Dict where
  root : Nat
  fallback : Option Nat
  deriving Repr, Inhabited

structure St where
  nodes : List Node
  next : Nat
  dicts : List Dict
  deriving Repr, Inhabited

abbrev HashFn := String → Nat

def find (ns : List Node) (i : Nat) : Option Node := ns.find? (fun n => n.id == i)

def St.get (st : St) (i : Nat) : Option Node := find st.nodes i

/-- Replace node `i` by `f` of it. -/
def upd (ns : List Node) (i : Nat) (f : Node → Node) : List Node :=
  ns.map (fun n => if n.id == i then f n else n)

/-- Keys from `i` upwards (bottom first), not including the parentless top
    node: the loop of attr_pathlen / the recursion of path_hash. -/
def upKeys (ns : List Node) : Nat → Nat → List String
  | 0, _ => []
  | f + 1, i =>
    match find ns i with
    | none => []
    | some n =>
      match n.parent with
      | none => []
      | some p => n.key :: upKeys ns f p

/-- path_hash(dir): "k1.k2. … kn." -/
def dirPrefix (ns : List Node) (fuel dir : Nat) : String :=
  String.join ((upKeys ns fuel dir).reverse.map (· ++ "."))

/-- Full path "k1.k2.….kn" of a node. -/
def pathStr (ns : List Node) (fuel i : Nat) : String :=
  String.intercalate "." (upKeys ns fuel i).reverse

/-- Split at dots. -/
def splitAux : List Char → List Char → List String
  | [], acc => [String.ofList acc.reverse]
  | c :: cs, acc => if c == '.' then String.ofList acc.reverse :: splitAux cs [] else splitAux cs (c :: acc)

def splitDots (s : String) : List String := splitAux s.toList []

/-- keycmp walks from the last component upwards; when the first component is
    empty and others follow (`p == key`), the loop ends without comparing it. -/
def effComps (comps : List String) : List String :=
  match comps with
  | c :: d :: rest => if c == "" then d :: rest else comps
  | _ => comps

/-- The walk of keycmp over the reversed components; returns the node reached. -/
def keycmpGo (ns : List Node) : List String → Nat → Option Nat
  | [], cur => some cur
  | c :: cs, cur =>
    match find ns cur with
    | none => none
    | some n =>
      if n.key == c then
        match n.parent with
        | none => none
        | some p => keycmpGo ns cs p
      else none

def keycmp (ns : List Node) (d : Nat) (dirTmpl : Nat) (comps : List String) : Bool :=
  match keycmpGo ns (effComps comps).reverse d with
  | none => false
  | some a =>
    match find ns a with
    | none => false
    | some an => an.tmpl == dirTmpl

/-- Scan one hash bucket of one dictionary. -/
def lookupIn (ns : List Node) (dict hv dirTmpl : Nat) (comps : List String) : Option Nat :=
  (ns.find? (fun d => d.dict == dict && d.hidx == hv && keycmp ns d.id dirTmpl comps)).map (·.id)

def lookupChain (st : St) (hv dirTmpl : Nat) (comps : List String) (fallback : Bool) : Nat → Nat → Option Nat
  | 0, _ => none
  | f + 1, dict =>
    match lookupIn st.nodes dict hv dirTmpl comps with
    | some r => some r
    | none =>
      if fallback then
        match (st.dicts[dict]?).bind (·.fallback) with
        | some fb => lookupChain st hv dirTmpl comps fallback f fb
        | none => none
      else none

/-- lookup_dir_attr(dict, dir, key, keylen) with `key` already cut to keylen. -/
def lookupDir (h : HashFn) (st : St) (dict dir : Nat) (key : String) : Option Nat :=
  match st.get dir with
  | none => none
  | some dn =>
    let (k, fb) := match key.toList with
      | '.' :: rest => (String.ofList rest, false)
      | _ => (key, true)
    let hv := h (dirPrefix st.nodes st.next dir ++ k)
    lookupChain st hv dn.tmpl (splitDots k) fb (st.dicts.length + 1) dict

def rootOf (st : St) (dict : Nat) : Option Nat := (st.dicts[dict]?).map (·.root)

/-- lookup_attr(dict, key); `none` key = the root. -/
def lookup (h : HashFn) (st : St) (dict : Nat) (key : Option String) : Option Nat :=
  match rootOf st dict with
  | none => none
  | some r =>
    match key with
    | none => some r
    | some k => lookupDir h st dict r k

/-- new_attr: fresh node at the head of sibling list and bucket. -/
def newAttr (h : HashFn) (st : St) (dict : Nat) (parent : Option Nat) (key : String) (ty : Ty)
    (tmpl : Option Nat) (hook : Hook) (fidx : Nat := 0) : St × Nat :=
  let id := st.next
  let pre := match parent with
    | none => ""
    | some p => dirPrefix st.nodes st.next p
  let n : Node := { id := id, parent := parent, key := key, ty := ty, isset := false, persist := false,
                    val := "", dict := dict, tmpl := tmpl.getD (20000 + id), hook := hook,
                    hidx := h (pre ++ key), fidx := fidx }
  ({ st with nodes := n :: st.nodes, next := id + 1 }, id)

/-- Longest existing prefix: tries k = n, n-1, …, 1 components. -/
def longestPrefix (h : HashFn) (st : St) (dict dir : Nat) (comps : List String) : Nat → Option (Nat × Nat)
  | 0 => none
  | k + 1 =>
    match lookupDir h st dict dir (String.intercalate "." (comps.take (k + 1))) with
    | some a => some (k + 1, a)
    | none => longestPrefix h st dict dir comps k

def createRest (h : HashFn) (dict : Nat) (ty : Ty) (hook : Hook) (fidx : Nat) : St → Nat → List String → St × Nat
  | st, cur, [] => (st, cur)
  | st, cur, [c] => newAttr h st dict (some cur) c ty none hook fidx
  | st, cur, c :: cs =>
    let (st', d) := newAttr h st dict (some cur) c .dir none .none
    createRest h dict ty hook fidx st' d cs

inductive Created | done (st : St) (n : Nat) | refused

/-- create_attr_path.  A path that starts with a dot is refused (lookup_dir_attr
    would strip the dot from the prefixes).  Children are created only below a
    directory (otherwise NULL); an existing target is returned whatever its
    type — the callers check it. -/
def createPath (h : HashFn) (st : St) (dict dir : Nat) (key : String) (ty : Ty) (hook : Hook)
    (fidx : Nat := 0) : Created :=
  let comps := splitDots key
  let (k, attr) := (longestPrefix h st dict dir comps comps.length).getD (0, dir)
  match st.get attr with
  | none => .refused
  | some an =>
    if key.toList.head? == some '.' then .refused
    else if k != comps.length && an.ty != Ty.dir then .refused
    else
      let (st', n) := createRest h dict ty hook fidx st attr (comps.drop k)
      .done st' n

/-- instantiate_path -/
def instantiate (ns : List Node) : Nat → Option Nat → List Node
  | 0, _ => ns
  | _, none => ns
  | f + 1, some i =>
    match find ns i with
    | none => ns
    | some n =>
      if n.isset then ns
      else instantiate (upd ns i (fun n => { n with isset := true })) f n.parent

/-- The attribute part of set_attr (no hooks). -/
def setPlain (st : St) (i : Nat) (persist : Bool) (val : String) : St :=
  match st.get i with
  | none => st
  | some n =>
    let ns := instantiate st.nodes st.next n.parent
    { st with nodes := upd ns i (fun n =>
        { n with isset := true, persist := persist, val := if n.ty == .dir then n.val else val }) }

/-- `a` is `i` or an ancestor of `i`. -/
def isUnder (ns : List Node) (a : Nat) : Nat → Nat → Bool
  | 0, _ => false
  | f + 1, i =>
    if i == a then true
    else match find ns i with
      | none => false
      | some n =>
        match n.parent with
        | none => false
        | some p => isUnder ns a f p

/-- dealloc_attr of every node strictly below `a`. -/
def deallocBelow (st : St) (a : Nat) : St :=
  { st with nodes := st.nodes.filter (fun n => n.id == a || !isUnder st.nodes a st.next n.id) }

/-- dealloc_attr(a) -/
def dealloc (st : St) (a : Nat) : St :=
  { st with nodes := st.nodes.filter (fun n => !isUnder st.nodes a st.next n.id) }

def children (ns : List Node) (d : Nat) : List Node := ns.filter (fun n => n.parent == some d)

/-- dealloc_vmcoreinfo(dir): every child directory loses all its children. -/
def deallocVmci (st : St) (dir : Nat) : St :=
  ((children st.nodes dir).filter (·.ty == .dir)).foldl (fun s c => deallocBelow s c.id) st

/-- clear_attr: the subtree becomes unset; the clear hook of a VMCOREINFO raw
    attribute in the subtree deallocates the parsed tree. -/
def clearAttr (st : St) (a : Nat) : St :=
  let sub := st.nodes.filter (fun n => isUnder st.nodes a st.next n.id)
  let st1 := { st with nodes := st.nodes.map (fun n =>
      if isUnder st.nodes a st.next n.id then { n with isset := false } else n) }
  (sub.filter (·.hook == .vmciRaw)).foldl
    (fun s r => match r.parent with | some p => deallocVmci s p | none => s) st1

/-- clear_volatile returns non-zero iff the node or a descendant is persistent. -/
def keeps (ns : List Node) (fuel : Nat) (i : Nat) : Bool :=
  (ns.filter (·.persist)).any (fun m => isUnder ns i fuel m.id)

def clearVolatile (st : St) (root : Nat) : St :=
  let dropped := st.nodes.filter (fun n => isUnder st.nodes root st.next n.id && !keeps st.nodes st.next n.id)
  let st1 := { st with nodes := st.nodes.map (fun n =>
      if isUnder st.nodes root st.next n.id && !keeps st.nodes st.next n.id then { n with isset := false } else n) }
  (dropped.filter (·.hook == .vmciRaw)).foldl
    (fun s r => match r.parent with | some p => deallocVmci s p | none => s) st1

/-! ### iteration -/

/-- set_iter_pos over a sibling list given as the list of nodes after the
    current position. -/
def firstSet (l : List Node) : Option Nat := (l.find? (·.isset)).map (·.id)

inductive IterRes | pos (p : Option Nat) | err (s : Status)

def iterStart (st : St) (d : Nat) : IterRes :=
  match st.get d with
  | none => .err .nokey
  | some n =>
    if !n.isset then .err .nodata
    else if n.ty != .dir then .err .invalid
    else .pos (firstSet (children st.nodes d))

/-- siblings after node `p` in its parent's list -/
def sibsAfter (ns : List Node) (p : Node) : List Node :=
  ((ns.dropWhile (fun n => n.id != p.id)).drop 1).filter (fun n => n.parent == p.parent)

def iterNext (st : St) (pos : Option Nat) : IterRes :=
  match pos with
  | none => .err .invalid
  | some p =>
    match st.get p with
    | none => .err .nokey        -- dangling position: outside the model
    | some pn => .pos (firstSet (sibsAfter st.nodes pn))

/-- A whole iteration: start, then `next` until the end (fuel = number of nodes). -/
def iterFrom (st : St) : Nat → Option Nat → List Nat
  | 0, _ => []
  | _ + 1, none => []
  | f + 1, some p =>
    p :: (match iterNext st (some p) with
          | .pos q => iterFrom st f q
          | .err _ => [])

def iterAll (st : St) (d : Nat) : List Nat :=
  match iterStart st d with
  | .pos q => iterFrom st st.nodes.length q
  | .err _ => []

/-! ### number parsing of lines_post_hook (strtoull subset) -/

def digitVal (c : Char) : Option Nat :=
  if '0' ≤ c ∧ c ≤ '9' then some (c.toNat - '0'.toNat)
  else if 'a' ≤ c ∧ c ≤ 'f' then some (c.toNat - 'a'.toNat + 10)
  else if 'A' ≤ c ∧ c ≤ 'F' then some (c.toNat - 'A'.toNat + 10)
  else none

def parseDigits (base : Nat) : List Char → Nat → Option Nat
  | [], acc => some acc
  | c :: cs, acc =>
    match digitVal c with
    | some d => if d < base then parseDigits base cs (acc * base + d) else none
    | none => none

/-- strtoull(s, &p, base) followed by `if (*p) reject`, for strings without
    leading blanks or sign.  base is 0 or 16.  The empty string is accepted
    as 0 (strtoull converts nothing and leaves p at the terminator). -/
def parseNum (base : Nat) (s : String) : Option Nat :=
  let sat := fun (r : Option Nat) => r.map (fun v => if v < 2 ^ 64 then v else 2 ^ 64 - 1)
  match s.toList with
  | [] => some 0
  | '0' :: x :: rest =>
    if (x == 'x' || x == 'X') then
      (if rest.isEmpty then none else sat (parseDigits 16 rest 0))
    else if base == 16 then sat (parseDigits 16 (x :: rest) 0)
    else sat (parseDigits 8 (x :: rest) 0)
  | cs => sat (parseDigits (if base == 16 then 16 else 10) cs 0)

/-! ### hooks and set -/

/-- The text of a string token `str:<hex>`. -/
def tokStr (tok : String) : String :=
  let rec go : List Char → List Char
    | a :: b :: rest => Char.ofNat ((digitVal a).getD 0 * 16 + (digitVal b).getD 0) :: go rest
    | _ => []
  match tok.toList with
  | 's' :: 't' :: 'r' :: ':' :: hs => String.ofList (go hs)
  | _ => ""

def hasValue (n : Node) (val : String) : Bool :=
  n.isset && (n.ty == .dir || n.val == val)

def findChildKey (st : St) (d : Nat) (key : String) : Option Node :=
  (children st.nodes d).find? (·.key == key)

/-- lines_post_hook for a line attribute `ln` (value already stored). -/
def linesPost (h : HashFn) (st : St) (dict : Nat) (ln : Nat) (linesDir : Nat) : St × Status :=
  match st.get ln, st.get linesDir with
  | some n, some ld =>
    match ld.parent with
    | none => (st, .ok)
    | some vdir =>
      -- key below `lines`
      let rel := (upKeys st.nodes st.next ln).reverse.drop ((upKeys st.nodes st.next linesDir).length)
      let key := String.intercalate "." rel
      let cs := key.toList
      match cs.span (· != '(') with
      | (_, []) => (st, .ok)
      | (tyc, _ :: afterParen) =>
        match afterParen.span (· != ')') with
        | (_, []) => (st, .ok)
        | (symc, _ :: tail) =>
          if !tail.isEmpty then (st, .ok)
          else
            let t := String.ofList tyc
            let tyOf : Option Ty :=
              if t == "SYMBOL" then some Ty.addr
              else if t == "LENGTH" || t == "NUMBER" || t == "OFFSET" || t == "SIZE" then some Ty.num
              else none
            match tyOf with
            | none => (st, .ok)
            | some ty =>
              let tkey := t ++ "." ++ String.ofList symc
              match parseNum (if ty == .addr then 16 else 0) (tokStr n.val) with
              | none =>
                -- the value is not a number: the row is ignored, but a typed value derived from an earlier row
                -- with the same key is stale and cleared (fix 13f1add)
                match lookupDir h st dict vdir tkey with
                | some a => if (st.get a).map (·.ty) == some ty then (clearAttr st a, .ok) else (st, .ok)
                | none => (st, .ok)
              | some v =>
                match createPath h st dict vdir tkey ty .none with
                | .done st' a =>
                  if (st'.get a).map (·.ty) != some ty then (st', .invalid)
                  else (setPlain st' a false ((if ty == .num then "num:" else "addr:") ++ toString v), .ok)
                | _ => (st, .system)
  | _, _ => (st, .ok)

/-- Rows of a VMCOREINFO blob: (key, value). -/
def vmciRows (text : String) : List (String × String) :=
  let rec rows : List Char → List Char → List (List Char)
    | [], [] => []
    | [], acc => [acc.reverse]
    | c :: cs, acc => if c == '\n' then acc.reverse :: rows cs [] else rows cs (c :: acc)
  (rows text.toList []).map (fun r =>
    match r.span (· != '=') with
    | (k, []) => (String.ofList k, "")
    | (k, _ :: v) => (String.ofList k, String.ofList v))

def strTok (s : String) : String :=
  let hx := fun (n : Nat) => Char.ofNat (if n < 10 then 48 + n else 87 + n)
  "str:" ++ String.ofList (s.toUTF8.toList.flatMap (fun b => [hx (b.toNat / 16), hx (b.toNat % 16)]))

/-- vmcoreinfo_raw_post_hook: dealloc, then add_parsed_row for every row until
    one fails. -/
def vmciParse (h : HashFn) (dict : Nat) (vdir : Nat) : St → List (String × String) → St × Status
  | st, [] => (st, .ok)
  | st, (k, v) :: more =>
    match lookupDir h st dict vdir "lines" with
    | none => (st, .nokey)
    | some lines =>
      match createPath h st dict lines k .str .vmciLine with
      | .done st1 a =>
        if (st1.get a).map (·.ty) != some Ty.str then (st1, .invalid) else
        let tok := strTok v
        let skip := match st1.get a with | some n => hasValue n tok | none => false
        let st2 := setPlain st1 a false tok
        if skip then vmciParse h dict vdir st2 more
        else
          match linesPost h st2 dict a lines with
          | (st3, .ok) => vmciParse h dict vdir st3 more
          | (st3, e) => (st3, e)
      | _ => (st, .system)

/-- num_files_pre_hook -/
def numFilesPre (h : HashFn) (st : St) (dict : Nat) (attr : Node) (n : Nat) (cur : Nat) : St × Status :=
  match attr.parent with
  | none => (st, .ok)
  | some parent =>
    if cur < n then
      let rec grow : Nat → Nat → St → St × Status
        | 0, _, s => (s, .ok)
        | f + 1, i, s =>
          match createPath h s dict parent (toString i) .dir .none i with
          | .done s1 d =>
            let (s2, _) := newAttr h s1 dict (some d) "fd" .num (some 10200) .none
            let (s3, _) := newAttr h s2 dict (some d) "name" .str (some 10201) .none
            grow f (i + 1) s3
          | _ => (s, .system)
      grow (n - cur) cur st
    else if n < cur then
      let victims := (children st.nodes parent).filter (fun c => c.ty == .dir && c.fidx ≥ n)
      (victims.foldl (fun s c => dealloc s c.id) st, .ok)
    else (st, .ok)

/-- The roll-back of num_files_pre_hook after a failed allocation (and its
    shrinking branch): every slot directory `file.set.<N>` with `N ≥ keep` is
    deallocated with everything below it. -/
def numFilesRollback (st : St) (parent keep : Nat) : St :=
  ((children st.nodes parent).filter (fun c => c.ty == .dir && c.fidx ≥ keep)).foldl
    (fun s c => dealloc s c.id) st

/-- The slot of num_files_pre_hook in which an allocation fails.  `stage` 0:
    the directory cannot be created (nothing is added), 1: the directory exists
    but its `fd` cannot be allocated, 2: directory and `fd` exist, `name`
    cannot be allocated. -/
def numFilesPartial (h : HashFn) (st : St) (dict parent i stage : Nat) : St :=
  if stage == 0 then st
  else match createPath h st dict parent (toString i) .dir .none i with
    | .done s1 d =>
      if stage == 1 then s1 else (newAttr h s1 dict (some d) "fd" .num (some 10200) .none).1
    | .refused => st

/-- num_files_pre_hook when an allocation fails in the new slot number
    `cur + slot` (`slot` complete slots have been created before it): the
    complete slots and the partial one are removed again, the status is
    `system` and the caller leaves the number as it was.  When the failing
    slot is not reached (`cur + slot ≥ n`) this is the plain hook. -/
def numFilesPreFail (h : HashFn) (st : St) (dict : Nat) (attr : Node) (n cur slot stage : Nat) : St × Status :=
  match attr.parent with
  | none => (st, .ok)
  | some parent =>
    if cur + slot < n then
      let s1 := (numFilesPre h st dict attr (cur + slot) cur).1
      let s2 := numFilesPartial h s1 dict parent (cur + slot) stage
      (numFilesRollback s2 parent cur, .system)
    else numFilesPre h st dict attr n cur

/-! #### a derived attribute: linux.version_code follows linux.uts.release -/

def takeNum (cs : List Char) : Option (Nat × List Char) :=
  let ds := cs.takeWhile Char.isDigit
  if ds.isEmpty then none
  else some (ds.foldl (fun a c => a * 10 + (c.toNat - 48)) 0, cs.dropWhile Char.isDigit)

/-- linux_ver_revalidate: KERNEL_VERSION(a, b, c) of a release string
    `a[.b[.c[anything]]]` (the macro caps `c` at 255); `none` = "Invalid kernel version". -/
def kernelVersion (rel : String) : Option Nat :=
  match takeNum rel.toList with
  | none => none
  | some (a, []) => some (a * 65536)
  | some (a, '.' :: r1) =>
    match takeNum r1 with
    | none => none
    | some (b, []) => some (a * 65536 + b * 256)
    | some (b, '.' :: r2) =>
      match takeNum r2 with
      | none => none
      | some (c, _) => some (a * 65536 + b * 256 + min c 255)
    | some _ => none
  | some _ => none

/-- linux_ver_post_hook + linux_ver_revalidate.  The implementation stores a
    placeholder marked invalid and every getter (by path, by reference,
    through an iterator position) revalidates before it answers; the model
    stores what they all must answer.  (A release that does not parse makes
    the getters fail in the implementation; the model keeps 0 — such strings
    are not generated.) -/
def utsReleasePost (st : St) (rel : Node) (val : String) : St :=
  match rel.parent.bind st.get with
  | none => st
  | some uts =>
    match uts.parent.bind (fun l => findChildKey st l "version_code") with
    | none => st
    | some vc => setPlain st vc.id false ("num:" ++ toString ((kernelVersion (tokStr val)).getD 0))

def numOfTok (tok : String) : Nat :=
  match tok.toList with
  | 'n' :: 'u' :: 'm' :: ':' :: ds => (parseDigits 10 ds 0).getD 0
  | _ => 0

/-- The global `lines` directory above a line attribute (the loop at the head
    of lines_post_hook). -/
def linesAnc (st : St) : Nat → Nat → Option Nat
  | 0, _ => none
  | f + 1, j =>
    match st.get j with
    | none => none
    | some m =>
      if m.key == "lines" && m.tmpl < 10000 then some j
      else match m.parent with
        | none => none
        | some p => linesAnc st f p

/-! ### the legacy alias `file.fd` of `file.set.0.fd` -/

/-- clear_attr(gattr(ctx, GKI_file_fd)) -/
def clearFileFd (h : HashFn) (st : St) (dict : Nat) : St :=
  match lookup h st dict (some "file.fd") with
  | some a => clearAttr st a
  | none => st

/-- The alias rule of num_files_post_hook: `file.fd` describes a file set of exactly one file. -/
def numFilesAlias (h : HashFn) (st : St) (dict : Nat) (n : Nat) : St :=
  if n != 1 then clearFileFd h st dict else st

/-- clear_attr with the clear hook of the descriptor attributes (fdset_clear_hook): when the cleared subtree
    holds `file.set.0.fd`, its legacy alias `file.fd` is cleared with it. -/
def clearHooked (h : HashFn) (st : St) (dict : Nat) (a : Nat) : St :=
  let s1 := clearAttr st a
  match lookup h st dict (some "file.set.0.fd") with
  | some f => if isUnder st.nodes a st.next f then clearFileFd h s1 dict else s1
  | none => s1

/-- set_attr with the hooks that change the tree.  `blobText` is the content
    of the blob when a VMCOREINFO raw attribute is set. -/
def setHooked (h : HashFn) (st : St) (dict : Nat) (i : Nat) (persist : Bool) (val : String)
    (blobText : String := "") : St × Status :=
  match st.get i with
  | none => (st, .nokey)
  | some n =>
    let skip := hasValue n val
    -- pre_set
    let pre : St × Status :=
      if skip then (st, .ok)
      else match n.hook with
        | .ostype => if val == "str:6c696e7578" || val == "str:78656e" then (st, .ok) else (st, .notimpl)
        | .numFiles => numFilesPre h st dict n (numOfTok val) (numOfTok n.val)
        | _ => (st, .ok)
    match pre with
    | (st1, .ok) =>
      let st2 := setPlain st1 i persist val
      if skip then (st2, .ok)
      else match n.hook with
        | .vmciRaw =>
          match n.parent with
          | none => (st2, .ok)
          | some vdir => vmciParse h dict vdir (deallocVmci st2 vdir) (vmciRows blobText)
        | .utsRelease => (utsReleasePost st2 n val, .ok)
        | .vmciLine =>
          -- a line attribute set directly by the application
          match linesAnc st2 st2.next i with
          | some ld => linesPost h st2 dict i ld
          | none => (st2, .ok)
        | .numFiles => (numFilesAlias h st2 dict (numOfTok val), .ok)
        | _ => (st2, .ok)
    | (st1, e) => (st1, e)

def tyOfTok (tok : String) : Ty :=
  match tok.toList with
  | 'n' :: 'i' :: 'l' :: _ => .nil
  | 'd' :: 'i' :: 'r' :: _ => .dir
  | 'n' :: 'u' :: 'm' :: _ => .num
  | 'a' :: 'd' :: 'd' :: 'r' :: _ => .addr
  | 's' :: 't' :: 'r' :: _ => .str
  | 'b' :: 'm' :: 'p' :: _ => .bmp
  | 'b' :: 'l' :: 'o' :: 'b' :: _ => .blob
  | _ => .nil

/-- check_set_attr -/
def checkSet (h : HashFn) (st : St) (dict : Nat) (i : Nat) (tok : String) (blobText : String := "") : St × Status :=
  match st.get i with
  | none => (st, .nokey)
  | some n =>
    let ty := tyOfTok tok
    if ty == .nil then (clearHooked h st dict i, .ok)
    else if ty != n.ty then (st, .invalid)
    else setHooked h st dict i true tok blobText

/-! ### clones -/

/-- copy_data; `none` = failure (bitmap, blob, nil) -/
def copyData (dst : Node) (src : Node) : Option Node :=
  let d := { dst with isset := true, persist := src.persist }
  match src.ty with
  | .dir => some d
  | .num | .addr | .str => some { d with val := src.val }
  | _ => none

/-- clone_attr -/
def cloneAttr (h : HashFn) (st : St) (dict dir : Nat) (orig : Node) : Option (St × Nat) :=
  let (st1, id) := newAttr h st dict (some dir) orig.key orig.ty (some orig.tmpl) orig.hook orig.fidx
  if orig.isset then
    match st1.get id with
    | none => none
    | some nn =>
      match copyData nn orig with
      | none => none
      | some c => some ({ st1 with nodes := upd st1.nodes id (fun _ => c) }, id)
  else some (st1, id)

/-- clone_subtree (fuel bounds the depth) -/
def cloneSubtree (h : HashFn) (dict : Nat) : Nat → St → Nat → Nat → Option St
  | 0, st, _, _ => some st
  | f + 1, st, dir, orig =>
    (children st.nodes orig).foldl (fun acc o =>
      match acc with
      | none => none
      | some s =>
        match cloneAttr h s dict dir o with
        | none => none
        | some (s1, nid) =>
          if o.ty == .dir then cloneSubtree h dict f s1 nid o.id else some s1) (some st)

/-- clone_attr_path -/
def cloneAttrPath (h : HashFn) (st : St) (dict : Nat) (orig : Nat) : Option St :=
  match rootOf st dict with
  | none => none
  | some root =>
    let comps := (upKeys st.nodes st.next orig).reverse
    -- longest prefix present in `dict` itself (leading dot: no fallback)
    let rec pre : Nat → Option (Nat × Nat)
      | 0 => none
      | k + 1 =>
        match lookupDir h st dict root ("." ++ String.intercalate "." (comps.take (k + 1))) with
        | some a => some (k + 1, a)
        | none => pre k
    let (k, base) := (pre comps.length).getD (0, root)
    let rec go : Nat → St → Nat → Nat → Option (St × Nat)
      | 0, s, cur, _ => some (s, cur)
      | f + 1, s, cur, j =>
        if j ≥ comps.length then some (s, cur)
        else
          match lookupDir h s dict root (String.intercalate "." (comps.take (j + 1))) with
          | none => none
          | some o =>
            match s.get o with
            | none => none
            | some on =>
              match cloneAttr h s dict cur on with
              | none => none
              | some (s1, nid) => go f s1 nid (j + 1)
    match go (comps.length + 1) st base k with
    | none => none
    | some (s, attr) =>
      match st.get orig with
      | none => none
      | some on =>
        -- the C code uses the `orig` of the last loop round; when the loop did
        -- not run it is the argument
        if on.ty == .dir then cloneSubtree h dict s.next s attr
            (if k ≥ comps.length then orig
             else (lookupDir h st dict root (String.intercalate "." comps)).getD orig)
        else some s

/-- attr_dict_clone + clone_xlat_attrs.  `xlatKeys` = the three global paths. -/
def cloneDict (h : HashFn) (st : St) (orig : Nat) (xlat : Bool) : Option (St × Nat) :=
  match rootOf st orig, (rootOf st orig).bind st.get with
  | some _, some rn =>
    let did := st.dicts.length
    let (st1, rid) := newAttr h st did none rn.key rn.ty (some rn.tmpl) rn.hook
    let st2 := { st1 with dicts := st1.dicts ++ [{ root := rid, fallback := some orig }] }
    if xlat then
      let paths := ["addrxlat.default", "addrxlat.force", "addrxlat.ostype"]
      let r := paths.foldl (fun acc p =>
        match acc with
        | none => none
        | some s =>
          match lookup h s orig (some p) with
          | none => none
          | some a => cloneAttrPath h s did a) (some st2)
      r.map (fun s => (s, did))
    else some (st2, did)
  | _, _ => none

/-! ### open -/

/-- One set performed by a format probe: path, value token (dir = only
    instantiate the directory). -/
structure Provided where
  path : String
  tok : String
  persist : Bool := false

def applyProvided (h : HashFn) (dict : Nat) : St → List Provided → St
  | st, [] => st
  | st, p :: ps =>
    let ty := tyOfTok p.tok
    match rootOf st dict with
    | none => st
    | some root =>
      let r : Option (St × Nat) :=
        match lookupDir h st dict root p.path with
        | some a => some (st, a)
        | none => match createPath h st dict root p.path ty .none with
          | .done s a => some (s, a)
          | _ => none
      match r with
      | none => applyProvided h dict st ps
      | some (s0, a) =>
        -- a raw VMCOREINFO blob set by the probe runs its post hook: old parsed rows go
        let s := match s0.get a with
          | some an => if an.hook == .vmciRaw then
              (match an.parent with | some vd => deallocVmci s0 vd | none => s0) else s0
          | none => s0
        let s' := if ty == .dir then { s with nodes := instantiate s.nodes s.next (some a) }
                  else setPlain s a p.persist p.tok
        applyProvided h dict s' ps

/-- kdump_open_fdset(ctx, 1, &fd) as far as attributes go. -/
def openFd (h : HashFn) (st : St) (dict : Nat) (fdTok : String) (prov : List Provided) : St :=
  match lookup h st dict (some "file.set"), lookup h st dict (some "file.set.number"), rootOf st dict with
  | some fset, some num, some root =>
    -- clear_all_fds
    let st1 := ((children st.nodes fset).filter (·.ty == .dir)).foldl (fun s d =>
      match lookupDir h s dict d.id "fd" with
      | some fd => clearHooked h s dict fd
      | none => s) st
    let (st2, _) := setHooked h st1 dict num true "num:1"
    let st3 := ((children st2.nodes fset).filter (·.ty == .dir)).foldl (fun s d =>
      match lookupDir h s dict d.id "fd" with
      | some fd => setPlain s fd true fdTok
      | none => s) st2
    -- open_dump: the mmap policy and the file cache counters are attached to the new file cache
    -- (set_attr(..., ATTR_PERSIST_INDIRECT, ...): set, persistent, value kept)
    let st4 := ["file.mmap_policy", "file.mmap_cache.hits", "file.mmap_cache.misses",
                "file.read_cache.hits", "file.read_cache.misses"].foldl (fun s p =>
      match lookup h s dict (some p) with
      | some a => (match s.get a with
          | some m => setPlain s a true m.val
          | none => s)
      | none => s) st3
    applyProvided h dict (clearVolatile st4 root) prov
  | _, _, _ => st

/-- The same call when the probe fails after the format was recognised: `open_dump` tears the probe down
    and runs `clear_volatile_attrs` once more, so what the probe had set (`prov`) is gone again — but a
    persistent value it had overwritten is gone with it. -/
def openFdFailed (h : HashFn) (st : St) (dict : Nat) (fdTok : String) (prov : List Provided) : St :=
  let s := openFd h st dict fdTok prov
  match rootOf s dict with
  | some root => clearVolatile s root
  | none => s

/-- kdump_set_attr(ctx, "file.fd", fd), the legacy way to open a dump: the value is stored (persistent), then
    file_fd_post_hook opens a one-file set with it (`openFd`, whose clear_all_fds clears the alias again when a slot 0
    exists already); the slot shares the value storage with `file.fd`, so the hook marks the alias as set again.
    Setting the value it already has runs no hook. -/
def setFileFd (h : HashFn) (st : St) (dict : Nat) (fdTok : String) (prov : List Provided) : St :=
  match lookup h st dict (some "file.fd") with
  | none => st
  | some a =>
    match st.get a with
    | none => st
    | some n =>
      let s1 := setPlain st a true fdTok
      if hasValue n fdTok then s1
      else
        let s2 := openFd h s1 dict fdTok prov
        { s2 with nodes := upd s2.nodes a (fun m => { m with isset := true }) }

end Kdf.Model.Attr
