import Kdf.Model.Cache
/-! Line protocol for stream `cache` (C06).

```
new <cap>
get <key> | insert <idx> | put <idx> | discard <idx>
release                 -- cache_release; afterwards only put/discard of referenced entries, `new` once it is freed
```
After every operation one line:
`> <result> U=.. GB=.. B=.. P=.. GP=.. F=.. dp=<dprobe> h=<hits> m=<misses> E=<i:key:ref:buf ...>`
where `E` lists, for every entry, key (only if the entry is cached, ghost or in
flight), reference count and buffer number (`-` = none); entries of `B`/`P` are
followed by `v`, entries of `F` by their state letter `b`/`p`.
-/
namespace Driver.Cache
open Kdf.Model.Cache

def showList (l : List Nat) : String := ",".intercalate (l.map toString)

def showEnt (c : Cache) (i : Nat) : String :=
  let e := c.ent i
  let named := i ∈ c.GB ∨ i ∈ c.B ∨ i ∈ c.P ∨ i ∈ c.GP ∨ i ∈ c.F
  let k := if named then toString e.key else "_"
  let d := match e.data with | some b => toString b | none => "-"
  let st := if i ∈ c.F then (if e.state = .probe then "b" else if e.state = .precious then "p" else "v")
            else if i ∈ c.B ∨ i ∈ c.P then (if e.state = .valid then "v" else "x") else ""
  s!"{i}:{k}:{e.refcnt}:{d}{st}"

def showState (c : Cache) : String :=
  s!"U={showList c.U} GB={showList c.GB} B={showList c.B} P={showList c.P} GP={showList c.GP} F={showList c.F} dp={c.dprobe} h={c.hits} m={c.misses} E=" ++
    " ".intercalate ((List.range (2*c.cap)).map (showEnt c))

def showOut : Out → String
  | .busy => "busy" | .entry i v => s!"entry:{i}:{if v then 1 else 0}" | .done => "done"

def showLife (what : String) (l : Life) : String :=
  let refs := (List.range l.refs.length).filterMap (fun i => if l.refs.getD i 0 = 0 then none else some s!"{i}:{l.refs.getD i 0}")
  s!"> {what} freed={if l.freed then 1 else 0} refs={",".intercalate refs}"

/-- a released cache: only `put` / `discard` of referenced entries, until it is freed -/
partial def lifeLoop (h : IO.FS.Stream) (l : Life) (k : IO Unit) : IO Unit := do
  if l.freed then k else
  let line ← h.getLine
  if line.isEmpty then return ()
  let ws := (line.trimAscii.toString.splitOn " ").filter (· ≠ "")
  match ws with
  | ["new", _] => IO.println "> PROTO new-in-orphan-mode"; k       -- the generator never does this
  | [op, e] =>
    let i := e.toNat!
    if (op = "put" ∨ op = "discard") ∧ l.refs.getD i 0 ≠ 0 then
      let l' := l.drop i
      IO.println (showLife "orphan" l'); lifeLoop h l' k
    else do IO.println "> bad-op"; lifeLoop h l k
  | _ => IO.println "> bad-op"; lifeLoop h l k

partial def loop (h : IO.FS.Stream) (c : Cache) (dead : Bool) : IO Unit := do
  let line ← h.getLine
  if line.isEmpty then return ()
  let ws := (line.trimAscii.toString.splitOn " ").filter (· ≠ "")
  let doOp (op : Op) : IO Unit := do
    if dead then IO.println "> dead"; loop h c true
    else match step c op with
      | .ok (c', o) => IO.println s!"> {showOut o} {showState c'}"; loop h c' false
      | .error (.ub w) => IO.println s!"> UB {w}"; loop h c true
      | .error (.proto w) => IO.println s!"> PROTO {w}"; loop h c true
  match ws with
  | ["new", cap] => let c' := flush cap.toNat!; IO.println s!"> done {showState c'}"; loop h c' false
  | ["release"] =>
    if dead then IO.println "> dead"; loop h c true
    else
      let l : Life := ({ refs := (List.range (2*c.cap)).map (fun i => (c.ent i).refcnt) } : Life).release
      IO.println (showLife "released" l)
      lifeLoop h l (loop h c true)
  | ["get", k] => doOp (.get k.toNat!)
  | ["insert", e] => doOp (.insert e.toNat!)
  | ["put", e] => doOp (.put e.toNat!)
  | ["discard", e] => doOp (.discard e.toNat!)
  | _ => IO.println "> bad-op"; loop h c dead

def run (h : IO.FS.Stream) : IO Unit := loop h (flush 1) false
end Driver.Cache
