import Kdf.Model.Pgt
import Kdf.Model.PgtArch
import Kdf.Spec.ArchWalk
import Kdf.Spec.ArchAarch64
import Kdf.Spec.ArchArm
import Kdf.Spec.ArchS390x
import Kdf.Spec.ArchPpc64
/-! Line protocol for stream `walk` (C02).  See harness/s_walk.c for the twin.

```
mem <seed> <and0> <or0> <and1> <or1> <be>     memory function parameters (32-bit cells)
ovr <as> <addr4> <val32>                      override one cell;  clr = drop overrides
meth pgt <fmt> <target_as> <root_as> <root_addr> <pte_mask> <f0,f1,...>
meth linear <t> <off> | meth lookup <t> <endoff> <o:d,...> | meth memarr <t> <base_as> <base_addr> <shift> <elemsz> <valsz>
walk <addr>     ->  > walk <status> [<as> <addr>]
                    > steps <status> r,as,addr,elemsz,i0:..:i8|...
twalk <addr>    ->  > reads as:addr:size ...      (driver only; used by the generator)
```
After every `walk` the driver also prints the independent specification (not part of the
correspondence stream):
```
# spec <status> [<as> <addr>]                               result of the architectural specification
# spec out-of-scope                                         no specification for this format / field list
# spec known-deviation <tag> <lib> | <status> [<as> <addr>] the input lies in a documented deviation class
```
`<tag>` is `aarch64-va-range`, `arm-va-range`, `ppc64-D1`, `ppc64-D2` or `s390x-D2` (see `knownDeviation`
in `Kdf/Spec/Arch*.lean`); `<lib>` is what the library is expected to answer inside the class where the
specification file predicts it (s390x: `specWith library`), otherwise `-`; after the bar: the specification.
`KDF_NO_KNOWN_DEVIATION=1` (or `KDF_PPC64_STRICT=1` for ppc64 only) switches the classes off (plain `# spec`
lines, to reproduce the discrepancies); `KDF_PPC64_DIALECT=lib` prints the ppc64 library dialect instead of
the specification (diagnostics).
-/
namespace Driver.Walk
open Kdf.Model.Pgt

structure MemCfg where
  seed : Nat := 0
  and0 : Nat := 0xffffffff
  or0 : Nat := 0
  and1 : Nat := 0xffffffff
  or1 : Nat := 0
  be : Bool := false
  ovr : List (Nat × Nat × Nat) := []

def mix (seed as a4 : Nat) : Nat :=
  let m := 2^64
  let z := (seed + 0x9E3779B97F4A7C15 * (a4 / 4 + 1) + as * 0xD1B54A32D192ED03) % m
  let z := ((z ^^^ (z / 2^30)) * 0xBF58476D1CE4E5B9) % m
  let z := ((z ^^^ (z / 2^27)) * 0x94D049BB133111EB) % m
  let z := z ^^^ (z / 2^31)
  z % 2^32

def cell (c : MemCfg) (as a4 : Nat) : Nat :=
  match c.ovr.find? (fun (s, a, _) => s = as ∧ a = a4) with
  | some (_, _, v) => v
  | none =>
    let h := mix c.seed as a4
    if (a4 / 4) % 2 = 0 then (h &&& c.and0) ||| c.or0 else (h &&& c.and1) ||| c.or1

def memOf (c : MemCfg) : Mem := fun as addr size =>
  if as ≥ 3 then .error .nodata
  else if size = 4 then
    if addr % 4 ≠ 0 then .error .unaligned else .ok (cell c as addr)
  else if size = 8 then
    if addr % 8 ≠ 0 then .error .unaligned
    else
      let a := cell c as addr; let b := cell c as (addr + 4)
      .ok (if c.be then a * 2^32 + b else b * 2^32 + a)
  else .error .notimpl

def fmtOf : String → PteFormat
  | "none" => .none | "pfn32" => .pfn32 | "pfn64" => .pfn64 | "aarch64" => .aarch64
  | "aarch64_lpa" => .aarch64Lpa | "aarch64_lpa2" => .aarch64Lpa2 | "arm" => .arm | "ia32" => .ia32
  | "ia32_pae" => .ia32Pae | "ppc64_linux_rpn30" => .ppc64LinuxRpn30 | "riscv32" => .riscv32
  | "riscv64" => .riscv64 | "s390x" => .s390x | _ => .x86_64

def showStatus : XStatus → String
  | .ok => "ok" | .notimpl => "notimpl" | .notpresent => "notpresent" | .invalid => "invalid"
  | .nomem => "nomem" | .nodata => "nodata" | .nometh => "nometh" | .unaligned => "unaligned"

def showAs (a : Nat) : String := if a = 3 then "-1" else toString a

def showStep (s : Step) : String :=
  s!"{s.remain},{showAs s.base.as},{s.base.addr},{s.elemsz}," ++ ":".intercalate (s.idx.map toString)

def nums (s : String) (sep : String) : List Nat :=
  (s.splitOn sep).filter (· ≠ "") |>.map String.toNat!

def asOf (s : String) : Nat := if s = "-1" then 3 else s.toNat!

/-- memory wrapper that records reads -/
def traceWalk (c : MemCfg) (m : Meth) (addr : Nat) : List String :=
  -- re-run the step machine, logging the address each next-step reads
  let (steps, _) := launchSteps Kdf.Model.PgtArch.extra (memOf c) m addr
  let sz := match m with
    | .pgt _ _ _ pf => (match ptevalShift pf.fmt with | some k => 2^k | none => 8)
    | .memarr _ _ _ _ v => v
    | _ => 8
  -- a state with remain ≥ 1 that is not the last one is about to be advanced and read
  steps.filterMap fun s =>
    if s.remain ≥ 2 then
      let a := (s.base.addr + idxAt s (s.remain - 1) * s.elemsz) % W
      some s!"{showAs s.base.as}:{a}:{sz}"
    else none

def showRes : Except XStatus FullAddr → String
  | .ok f => s!"ok {showAs f.as} {f.addr}"
  | .error e => showStatus e

/-- the `# spec …` line for one walk (see the file header) -/
def specLine (c : MemCfg) (m : Meth) (a : Nat) : IO String := do
  -- KDF_NO_KNOWN_DEVIATION=1: compare with the specification even on documented deviations
  let noDev := (← IO.getEnv "KDF_NO_KNOWN_DEVIATION") == some "1"
  let mem := memOf c
  match m with
  | .pgt t root mask pf =>
    if Kdf.Spec.ArchAarch64.archFormAarch64 pf then
      -- AArch64 (Kdf/Spec/ArchAarch64.lean); one class: vaRange
      let r := showRes (Kdf.Spec.ArchAarch64.specAarch64 mem t root mask pf a)
      if !noDev && Kdf.Spec.ArchAarch64.knownDeviation mem t root mask pf a then
        return s!"# spec known-deviation aarch64-va-range - | {r}"
      else return s!"# spec {r}"
    else if Kdf.Spec.ArchArm.archFormArm pf then
      -- 32-bit Arm short descriptors (Kdf/Spec/ArchArm.lean); one class: va ≥ 2^(32-N)
      let r := showRes (Kdf.Spec.ArchArm.specArm mem t root mask pf a)
      if !noDev && Kdf.Spec.ArchArm.knownDeviation pf a then
        return s!"# spec known-deviation arm-va-range - | {r}"
      else return s!"# spec {r}"
    else if Kdf.Spec.ArchS390x.archFormS390x pf then
      -- z/Architecture (Kdf/Spec/ArchS390x.lean); one class: D2 (PTE bit 52 ignored), inside it the
      -- library has to agree with `specWith library`
      let strict := Kdf.Spec.ArchS390x.specS390x mem t root mask pf a
      if !noDev && Kdf.Spec.ArchS390x.knownDeviation mem t root mask pf a then
        let lib := Kdf.Spec.ArchS390x.specWith Kdf.Spec.ArchS390x.library mem t root mask pf a
        return s!"# spec known-deviation s390x-D2 {showRes lib} | {showRes strict}"
      else return s!"# spec {showRes strict}"
    else if Kdf.Spec.ArchPpc64.archFormPpc64 pf then
      -- Linux/ppc64 (Kdf/Spec/ArchPpc64.lean); classes D1 (_PAGE_PRESENT), D2 (hugepd encoding)
      let strict := noDev || (← IO.getEnv "KDF_PPC64_STRICT").isSome
      let dc := Kdf.Spec.ArchPpc64.knownDeviationClass mem t root mask pf a
      let r := showRes (if (← IO.getEnv "KDF_PPC64_DIALECT") == some "lib"
                  -- diagnostic only: the format the library implements, in specification style
                  then Kdf.Spec.ArchPpc64.specWith Kdf.Spec.ArchPpc64.libkdumpfile mem t root mask pf a
                  else Kdf.Spec.ArchPpc64.specPpc64 mem t root mask pf a)
      if !strict && dc ≠ 0 then return s!"# spec known-deviation ppc64-D{dc} - | {r}"
      else return s!"# spec {r}"
    else if Kdf.Spec.ArchWalk.archForm pf then
      return s!"# spec {showRes (Kdf.Spec.ArchWalk.specXlat mem m a)}"
    else return "# spec out-of-scope"
  | _ => return s!"# spec {showRes (Kdf.Spec.ArchWalk.specXlat mem m a)}"

partial def loop (h : IO.FS.Stream) (c : MemCfg) (m : Meth) : IO Unit := do
  let line ← h.getLine
  if line.isEmpty then return ()
  let ws := (line.trimAscii.toString.splitOn " ").filter (· ≠ "")
  match ws with
  | ["mem", seed, a0, o0, a1, o1, be] =>
    loop h { seed := seed.toNat!, and0 := a0.toNat!, or0 := o0.toNat!, and1 := a1.toNat!, or1 := o1.toNat!,
             be := be == "1", ovr := c.ovr } m
  | ["ovr", as, a4, v] => loop h { c with ovr := (as.toNat!, a4.toNat!, v.toNat!) :: c.ovr } m
  | ["xor", as, a4, v] =>
    let cur := cell c as.toNat! a4.toNat!
    loop h { c with ovr := (as.toNat!, a4.toNat!, cur ^^^ v.toNat!) :: c.ovr } m
  | ["clr"] => loop h { c with ovr := [] } m
  | ["meth", "pgt", fmt, t, ras, raddr, mask, fields] =>
    loop h c (.pgt (asOf t) ⟨raddr.toNat!, asOf ras⟩ mask.toNat! ⟨fmtOf fmt, nums fields ","⟩)
  | ["meth", "linear", t, off] => loop h c (.linear (asOf t) off.toNat!)
  | ["meth", "lookup", t, endoff, tbl] =>
    let es := (tbl.splitOn ",").filter (· ≠ "") |>.map fun e =>
      match e.splitOn ":" with | [o, d] => (o.toNat!, d.toNat!) | _ => (0, 0)
    loop h c (.lookup (asOf t) endoff.toNat! es)
  | ["meth", "lookup", t, endoff] => loop h c (.lookup (asOf t) endoff.toNat! [])
  | ["meth", "memarr", t, bas, baddr, shift, elemsz, valsz] =>
    loop h c (.memarr (asOf t) ⟨baddr.toNat!, asOf bas⟩ shift.toNat! elemsz.toNat! valsz.toNat!)
  | ["meth", "nometh"] => loop h c .nometh
  | ["walk", addr] =>
    let a := addr.toNat!
    match walk Kdf.Model.PgtArch.extra (memOf c) m a with
    | .ok s => IO.println s!"> walk ok {showAs s.base.as} {s.base.addr}"
    | .error e => IO.println s!"> walk {showStatus e}"
    let (steps, fin) := launchSteps Kdf.Model.PgtArch.extra (memOf c) m a
    let st := match fin with | .ok _ => "ok" | .error e => showStatus e
    IO.println (s!"> steps {st} " ++ "|".intercalate (steps.map showStep))
    -- the independent specification (not part of the correspondence stream)
    IO.println (← specLine c m a)
    loop h c m
  | ["twalk", addr] =>
    IO.println ("> reads " ++ " ".intercalate (traceWalk c m addr.toNat!))
    loop h c m
  | _ => IO.println "> bad-op"; loop h c m

def run (h : IO.FS.Stream) : IO Unit := loop h {} .nometh
end Driver.Walk
