import Kdf.Model.Attr
/-! Line protocol for stream `attr` (C13); see harness/s_attr.c for the
commands.  Lines only the model needs:

```
G <idx> <parentidx> <key|@> <type> <hook>    global key table (from the .def files), in GKI order
O <parentpath> <key> <type> <tmpl>           addrxlat option attributes (create_addrxlat_dir)
M <path>                                     dir->flags.isset = 1
I <path> <token>                             set_attr_number(..., ATTR_PERSIST, …) of kdump_new
prov <path> <token>                          one volatile set performed by the next open's probe
openst <status>                              status of the next open
```
-/
namespace Driver.Attr
open Kdf.Model.Attr

/-- phash_update over the whole string + phash_value + fold_hash(…, 10) -/
def realHash (s : String) : Nat :=
  let W := 2 ^ 64
  let bytes := s.toUTF8.toList.map (·.toNat)
  let rec go (fuel : Nat) (bs : List Nat) (val : Nat) : Nat :=
    match fuel with
    | 0 => val
    | f + 1 =>
      if bs.length ≥ 8 then
        let chunk := bs.take 8
        let x := chunk.reverse.foldl (fun a b => a * 256 + b) 0     -- little-endian load
        go f (bs.drop 8) (((val + x) % W) * 9 % W)
      else
        if bs.isEmpty then val
        else (val + bs.foldl (fun a b => a * 256 + b) 0) % W          -- big-endian tail
  let v := go (bytes.length + 1) bytes 0
  (v * 11400714819323198549 % W) / 2 ^ 54

def tyOfName : String → Ty
  | "nil" => .nil | "dir" => .dir | "num" => .num | "addr" => .addr | "str" => .str | "bmp" => .bmp | "blob" => .blob
  | _ => .nil

def tyName : Ty → String
  | .nil => "nil" | .dir => "dir" | .num => "num" | .addr => "addr" | .str => "str" | .bmp => "bmp" | .blob => "blob"

def hookOfName : String → Hook
  | "vmciRaw" => .vmciRaw | "numFiles" => .numFiles | "ostype" => .ostype | "utsRelease" => .utsRelease | _ => .none

def stName : Status → String
  | .ok => "ok" | .system => "system" | .notimpl => "notimpl" | .nodata => "nodata" | .invalid => "invalid" | .nokey => "nokey"

def showVal (n : Node) : String :=
  if n.ty == .dir then "dir"
  else if n.ty == .num && (n.key == "hits" || n.key == "misses") then "num:STAT"
  else n.val

def showKey (k : String) : String := if k == "" then "\"\"" else k

def unhex (s : String) : String :=
  let hv := fun (c : Char) => (digitVal c).getD 0
  let rec go : List Char → List Char
    | a :: b :: rest => Char.ofNat (hv a * 16 + hv b) :: go rest
    | _ => []
  String.ofList (go s.toList)

structure DS where
  tmpl : Array (List String) := #[]
  gmap : Array Nat := #[]              -- while building: GKI index → node id
  worlds : Array St := #[]
  ctxs : Array (Option (Nat × Nat)) := Array.replicate 16 none
  refs : Array (Option (Nat × Nat)) := Array.replicate 64 none      -- (world, node)
  iters : Array (Option (Nat × Option Nat)) := Array.replicate 16 none
  blobs : Array String := Array.replicate 65536 ""
  prov : Array Provided := #[]
  openst : String := "ok"

def optPath (p : String) : Option String := if p == "@" then none else some p

/-- Build a fresh world from the template lines. -/
def buildWorld (tmpl : Array (List String)) : St := Id.run do
  let mut st : St := { nodes := [], next := 0, dicts := [{ root := 0, fallback := none }] }
  let mut gmap : Array Nat := #[]
  for ws in tmpl do
    match ws with
    | ["G", idx, pidx, key, ty, hook] =>
      let i := idx.toNat!
      let parent := if i == 0 then none else gmap[pidx.toNat!]?
      let (st', id) := newAttr realHash st 0 parent (if key == "@" then "" else key) (tyOfName ty) (some i) (hookOfName hook)
      st := st'
      gmap := gmap.push id
    | ["O", ppath, key, ty, t] =>
      match lookup realHash st 0 (some ppath) with
      | some p =>
        let (st', _) := newAttr realHash st 0 (some p) key (tyOfName ty) (some t.toNat!) .none
        st := st'
      | none => pure ()
    | ["M", path] =>
      match lookup realHash st 0 (some path) with
      | some p => st := { st with nodes := instantiate st.nodes st.next (some p) }   -- the directory and its unset ancestors
      | none => pure ()
    | ["I", path, tok] =>
      match lookup realHash st 0 (some path) with
      | some p => st := setPlain st p true tok
      | none => pure ()
    | _ => pure ()
  return st

partial def dumpDir (st : St) (dir : Nat) (pfx : String) : List String :=
  ((children st.nodes dir).filter (·.isset)).flatMap (fun n =>
    let path := if pfx == "" then n.key else pfx ++ "." ++ n.key
    let me := s!"{path}={showVal n}/{if n.persist then "P" else "V"}"
    if n.ty == .dir then me :: dumpDir st n.id path else [me])

partial def lsAll (st : St) (pos : Option Nat) (acc : List String) : List String :=
  match pos with
  | none => acc.reverse
  | some p =>
    match st.get p with
    | none => acc.reverse
    | some n =>
      match iterNext st pos with
      | .pos q => lsAll st q (showKey n.key :: acc)
      | .err _ => (("!next-failed") :: showKey n.key :: acc).reverse

def getRes (st : St) (o : Option Nat) : String :=
  match o with
  | none => "nokey"
  | some i =>
    match st.get i with
    | none => "DANGLING"
    | some n => if n.isset then s!"ok {showVal n}" else "nodata"

def keyOfPos (st : St) (pos : Option Nat) : String :=
  match pos with
  | none => "-"
  | some p => match st.get p with | some n => showKey n.key | none => "DANGLING"

partial def loop (h : IO.FS.Stream) (s : DS) : IO Unit := do
  let line ← h.getLine
  if line.isEmpty then return ()
  let ws := (line.trimAscii.toString.splitOn " ").filter (· ≠ "")
  let world (c : Nat) : Option (Nat × Nat × St) :=
    match s.ctxs[c]? with
    | some (some (w, d)) => (s.worlds[w]?).map (fun st => (w, d, st))
    | _ => none
  let putW (w : Nat) (st : St) : DS := { s with worlds := s.worlds.set! w st }
  let blobText (tok : String) : String :=
    match tok.toList with
    | 'b' :: 'l' :: 'o' :: 'b' :: ':' :: ds => s.blobs[(String.ofList ds).toNat!]?.getD ""
    | _ => ""
  match ws with
  | "G" :: _ | "O" :: _ | "M" :: _ | "I" :: _ => loop h { s with tmpl := s.tmpl.push ws }
  | ["new", c] =>
    let st := buildWorld s.tmpl
    let w := s.worlds.size
    IO.println "> new ok"
    loop h { s with worlds := s.worlds.push st, ctxs := s.ctxs.set! c.toNat! (some (w, 0)) }
  | ["clone", c, d, fl] =>
    match world c.toNat! with
    | none => IO.println "> bad-op"; loop h s
    | some (w, dict, st) =>
      let f := fl.toNat!
      if f == 0 then
        IO.println "> clone ok"; loop h { s with ctxs := s.ctxs.set! d.toNat! (some (w, dict)) }
      else match cloneDict realHash st dict (f % 2 == 1) with
        | some (st', nd) =>
          IO.println "> clone ok"
          loop h { putW w st' with ctxs := s.ctxs.set! d.toNat! (some (w, nd)) }
        | none => IO.println "> clone null"; loop h s
  | ["free", c] => IO.println "> free"; loop h { s with ctxs := s.ctxs.set! c.toNat! none }
  | ["mkblob", b, hex] =>
    IO.println "> mkblob ok"
    loop h { s with blobs := s.blobs.set! b.toNat! (if hex == "-" then "" else unhex hex) }
  | ["get", c, p] =>
    match world c.toNat! with
    | none => IO.println "> bad-op"; loop h s
    | some (_, d, st) => IO.println s!"> get {getRes st (lookup realHash st d (optPath p))}"; loop h s
  | ["gett", c, p, t] =>
    match world c.toNat! with
    | none => IO.println "> bad-op"; loop h s
    | some (_, d, st) =>
      let o := lookup realHash st d (optPath p)
      let r := match o.bind st.get with
        | some n => if n.isset && n.ty != tyOfName t then "invalid" else getRes st o
        | none => getRes st o
      IO.println s!"> gett {r}"; loop h s
  | ["badset", _, _, _, st] =>
    -- a value refused by the key's pre-set hook (the hook itself is not modelled; the status is given): nothing changes
    IO.println s!"> set {st}"; loop h s
  | ["set", c, p, v] =>
    match world c.toNat! with
    | none => IO.println "> bad-op"; loop h s
    | some (w, d, st) =>
      match lookup realHash st d (optPath p) with
      | none => IO.println "> set nodata"; loop h s
      | some i =>
        let (st', r) := checkSet realHash st d i v (blobText v)
        IO.println s!"> set {stName r}"; loop h (putW w st')
  | ["setfn", c, v] =>
    -- kdump_set_filenames(ctx, 1, &name): the file set grows to one file if it is smaller (never shrinks), then
    -- file.set.0.name is set (persistent) or, for a NULL name, cleared
    match world c.toNat! with
    | none => IO.println "> bad-op"; loop h s
    | some (w, d, st) =>
      match lookup realHash st d (some "file.set.number") with
      | none => IO.println "> setfn nodata"; loop h s
      | some num =>
        let cur := match st.get num with
          | some n => ((n.val.drop 4).toString.toNat?).getD 0      -- get_num_files reads the stored number, set or not
          | none => 0
        let (st1, r1) := if cur < 1 then checkSet realHash st d num "num:1" else (st, .ok)
        if r1 != .ok then do IO.println s!"> setfn {stName r1}"; loop h (putW w st1)
        else
          match lookup realHash st1 d (some "file.set.0.name") with
          | none => IO.println "> setfn ok"; loop h (putW w st1)
          | some nm =>
            let (st2, r2) := checkSet realHash st1 d nm (if v == "-" then "nil" else "str:" ++ v)
            IO.println s!"> setfn {stName r2}"; loop h (putW w st2)
  | ["nfiles", c, n] =>
    match world c.toNat! with
    | none => IO.println "> bad-op"; loop h s
    | some (w, d, st) =>
      match lookup realHash st d (some "file.set.number") with
      | none => IO.println "> nfiles nodata"; loop h s
      | some i =>
        let (st', r) := checkSet realHash st d i ("num:" ++ n)
        IO.println s!"> nfiles {stName r}"; loop h (putW w st')
  | ["nfilesoom", c, n, _, slot, stage] =>
    -- kdump_set_attr(file.set.number = n) in which an allocation of the new slot number cur + slot fails
    -- (stage 0 directory, 1 fd, 2 name); slot `-` = no allocation fails
    match world c.toNat! with
    | none => IO.println "> bad-op"; loop h s
    | some (w, d, st) =>
      match lookup realHash st d (some "file.set.number") with
      | none => IO.println "> nfilesoom nodata"; loop h s
      | some i =>
        if slot == "-" then
          let (st', r) := checkSet realHash st d i ("num:" ++ n)
          IO.println s!"> nfilesoom {stName r}"; loop h (putW w st')
        else match st.get i with
          | none => IO.println "> nfilesoom nodata"; loop h s
          | some nd =>
            let (st', r) := numFilesPreFail realHash st d nd n.toNat! (numOfTok nd.val) slot.toNat! stage.toNat!
            if r == .ok then
              let (st2, r2) := checkSet realHash st d i ("num:" ++ n)
              IO.println s!"> nfilesoom {stName r2}"; loop h (putW w st2)
            else do IO.println s!"> nfilesoom {stName r}"; loop h (putW w st')
  | ["ref", c, r, p] =>
    match world c.toNat! with
    | none => IO.println "> bad-op"; loop h s
    | some (w, d, st) =>
      match lookup realHash st d (optPath p) with
      | none => IO.println "> ref nokey"; loop h { s with refs := s.refs.set! r.toNat! none }
      | some i => IO.println "> ref ok"; loop h { s with refs := s.refs.set! r.toNat! (some (w, i)) }
  | ["sub", c, r, r2, k] =>
    match world c.toNat!, s.refs[r.toNat!]? with
    | some (w, d, st), some (some (_, base)) =>
      match lookupDir realHash st d base k with
      | none => IO.println "> sub nokey"; loop h s
      | some i => IO.println "> sub ok"; loop h { s with refs := s.refs.set! r2.toNat! (some (w, i)) }
    | _, _ => IO.println "> bad-op"; loop h s
  | ["rget", c, r] =>
    match world c.toNat!, s.refs[r.toNat!]? with
    | some (_, _, st), some (some (_, i)) => IO.println s!"> rget {getRes st (some i)}"; loop h s
    | _, _ => IO.println "> bad-op"; loop h s
  | ["rset", c, r, v] =>
    match world c.toNat!, s.refs[r.toNat!]? with
    | some (w, d, st), some (some (_, i)) =>
      let (st', res) := checkSet realHash st d i v (blobText v)
      IO.println s!"> rset {stName res}"; loop h (putW w st')
    | _, _ => IO.println "> bad-op"; loop h s
  | ["rinfo", r] =>
    match s.refs[r.toNat!]? with
    | some (some (w, i)) =>
      match (s.worlds[w]?).bind (·.get i) with
      | some n => IO.println s!"> rinfo {tyName n.ty} {if n.isset then 1 else 0}"
      | none => IO.println "> rinfo DANGLING"
      loop h s
    | _ => IO.println "> bad-op"; loop h s
  | ["setsub", c, r, k, v] =>
    match world c.toNat!, s.refs[r.toNat!]? with
    | some (w, d, st), some (some (_, base)) =>
      match lookupDir realHash st d base k with
      | none => IO.println "> setsub nokey"; loop h s
      | some i =>
        let (st', res) := checkSet realHash st d i v (blobText v)
        IO.println s!"> setsub {stName res}"; loop h (putW w st')
    | _, _ => IO.println "> bad-op"; loop h s
  | ["unref", _, r] => loop h { s with refs := s.refs.set! r.toNat! none }
  | ["iter", c, i, p] =>
    match world c.toNat! with
    | none => IO.println "> bad-op"; loop h s
    | some (w, d, st) =>
      match lookup realHash st d (optPath p) with
      | none => IO.println "> iter nokey"; loop h s
      | some dn =>
        match iterStart st dn with
        | .err e => IO.println s!"> iter {stName e}"; loop h s
        | .pos q => IO.println s!"> iter ok {keyOfPos st q}"; loop h { s with iters := s.iters.set! i.toNat! (some (w, q)) }
  | ["riter", c, i, r] =>
    match world c.toNat!, s.refs[r.toNat!]? with
    | some (w, _, st), some (some (_, dn)) =>
      match iterStart st dn with
      | .err e => IO.println s!"> riter {stName e}"; loop h s
      | .pos q => IO.println s!"> riter ok {keyOfPos st q}"; loop h { s with iters := s.iters.set! i.toNat! (some (w, q)) }
    | _, _ => IO.println "> bad-op"; loop h s
  | ["next", c, i] =>
    match world c.toNat!, s.iters[i.toNat!]? with
    | some (w, _, st), some (some (_, pos)) =>
      match iterNext st pos with
      | .err e => IO.println s!"> next {stName e}"; loop h s
      | .pos q => IO.println s!"> next ok {keyOfPos st q}"; loop h { s with iters := s.iters.set! i.toNat! (some (w, q)) }
    | _, _ => IO.println "> bad-op"; loop h s
  | ["iget", c, i] =>
    match world c.toNat!, s.iters[i.toNat!]? with
    | some (_, _, st), some (some (_, pos)) =>
      match pos with
      | none => IO.println "> iget end"
      | some p => IO.println s!"> iget {getRes st (some p)}"
      loop h s
    | _, _ => IO.println "> bad-op"; loop h s
  | ["iref", i, r] =>
    match s.iters[i.toNat!]? with
    | some (some (w, some p)) => IO.println "> iref ok"; loop h { s with refs := s.refs.set! r.toNat! (some (w, p)) }
    | some (some (_, none)) => IO.println "> iref end"; loop h s
    | _ => IO.println "> bad-op"; loop h s
  | ["iend", _, _] => loop h s
  | ["ls", c, p] =>
    match world c.toNat! with
    | none => IO.println "> bad-op"; loop h s
    | some (_, d, st) =>
      match lookup realHash st d (optPath p) with
      | none => IO.println "> ls nokey"; loop h s
      | some dn =>
        match iterStart st dn with
        | .err e => IO.println s!"> ls {stName e}"; loop h s
        | .pos q =>
          let ks := lsAll st q []
          IO.println s!"> ls ok {if ks.isEmpty then "-" else ",".intercalate ks}"; loop h s
  | ["dumpat", c, p] =>
    match world c.toNat! with
    | none => IO.println "> bad-op"; loop h s
    | some (_, d, st) =>
      match (lookup realHash st d (optPath p)).bind st.get with
      | none => IO.println "> dump !ref-nokey"
      | some dn =>
        if !dn.isset then IO.println "> dump !root-unset"
        else IO.println s!"> dump {";".intercalate (dumpDir st dn.id p)}"
      loop h s
  | ["dump", c] =>
    match world c.toNat! with
    | none => IO.println "> bad-op"; loop h s
    | some (_, d, st) =>
      match (rootOf st d).bind st.get with
      | none => IO.println "> dump !ref-nokey"
      | some rn =>
        if !rn.isset then IO.println "> dump !root-unset"
        else IO.println s!"> dump {";".intercalate (dumpDir st rn.id "")}"
      loop h s
  | ["prov", p, tok, fl] => loop h { s with prov := s.prov.push { path := p, tok := tok, persist := fl == "P" } }
  | ["openst", st] => loop h { s with openst := st }
  | ["open", c, _] =>
    match world c.toNat! with
    | none => IO.println "> bad-op"; loop h s
    | some (w, d, st) =>
      let st' := (if s.openst == "ok" then openFd else openFdFailed) realHash st d s!"num:{100 + c.toNat!}" s.prov.toList
      IO.println s!"> open {s.openst}"
      loop h { putW w st' with prov := #[], openst := "ok" }
  | ["fdopen", c, _] =>
    match world c.toNat! with
    | none => IO.println "> bad-op"; loop h s
    | some (w, d, st) =>
      if s.openst != "ok" then do IO.println "> bad-op"; loop h s
      else
        let st' := setFileFd realHash st d s!"num:{100 + c.toNat!}" s.prov.toList
        IO.println "> fdopen ok"
        loop h { putW w st' with prov := #[], openst := "ok" }
  | [] => loop h s
  | _ => if (ws.head?.getD "").startsWith "#" then loop h s else do IO.println "> bad-op"; loop h s

def run (h : IO.FS.Stream) : IO Unit := loop h {}
end Driver.Attr
