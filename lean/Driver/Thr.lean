import Kdf.Model.Conc
import Driver.Cache
/-! Line protocol for stream `thr` (C05): replay of an interleaved event log on the
concurrency model `Kdf.Model.Conc`.

```
new <cap> <nthreads> <lockedPut 0|1>
<t> rdlock | rdunlock | wrlock | wrunlock | lock | unlock | insert | discard | copy | put | load | store
<t> get <key>
<t> fillEnd <0|1>
end
```
One line per event: `> <t> <event> <ok|blocked|refused|err ...>`, followed for `get` by the result
(`busy`, `<idx>:hit`, `<idx>:miss`), for `copy` by `good`/`bad`, and for every event that touches
the cache by ` | ` and the cache state in the format of `harness/s_thr.c`.  A step that is not `ok`
leaves the state unchanged.  `end` prints the reference sum, quiescence and the `bad` flags. -/
namespace Driver.Thr
open Kdf.Model.Cache Kdf.Model.Conc

def showState (c : Cache) : String :=
  s!"U={Driver.Cache.showList c.U} GB={Driver.Cache.showList c.GB} B={Driver.Cache.showList c.B} P={Driver.Cache.showList c.P} GP={Driver.Cache.showList c.GP} F={Driver.Cache.showList c.F} dp={c.dprobe} E=" ++
    " ".intercalate ((List.range (2*c.cap)).map (Driver.Cache.showEnt c))

def parseEv : List String → Option Ev
  | ["rdlock"] => some .rdlock | ["rdunlock"] => some .rdunlock
  | ["wrlock"] => some .wrlock | ["wrunlock"] => some .wrunlock
  | ["lock"] => some .lock | ["unlock"] => some .unlock
  | ["insert"] => some .insert | ["discard"] => some .discard
  | ["copy"] => some .copy | ["put"] => some .put | ["load"] => some .load | ["store"] => some .store
  | ["get", k] => some (.get k.toNat!)
  | ["fillEnd", b] => some (.fillEnd (b != "0"))
  | _ => none

def evName : Ev → String
  | .rdlock => "rdlock" | .rdunlock => "rdunlock" | .wrlock => "wrlock" | .wrunlock => "wrunlock"
  | .lock => "lock" | .unlock => "unlock" | .get k => s!"get {k}" | .fillEnd ok => s!"fillEnd {if ok then 1 else 0}"
  | .insert => "insert" | .discard => "discard" | .copy => "copy" | .put => "put" | .load => "load" | .store => "store"

def touchesCache : Ev → Bool
  | .get _ | .insert | .discard | .put | .store => true
  | _ => false

def describe (s s' : State) (t : Nat) (ev : Ev) : String :=
  let th := s'.thread t
  let extra := match ev with
    | .get _ => match th.pc with
      | .hitL e => s!" {e}:hit" | .missL e => s!" {e}:miss" | _ => " busy"
    | .copy => if th.bad && !(s.thread t).bad then " bad" else " good"
    | _ => ""
  let st := if touchesCache ev then " | " ++ showState s'.cache else ""
  s!"ok{extra}{st}"

partial def loop (h : IO.FS.Stream) (cfg : Cfg) (s : State) : IO Unit := do
  let line ← h.getLine
  if line.isEmpty then return ()
  let ws := (line.trimAscii.toString.splitOn " ").filter (· ≠ "")
  match ws with
  | ["new", cap, n, lp] =>
    let s' := init cap.toNat! n.toNat!
    IO.println s!"> new {showState s'.cache}"
    loop h ⟨lp != "0"⟩ s'
  | ["end"] =>
    let refs := ((List.range (2 * s.cache.cap)).map s.cache.refcnt).foldl (· + ·) 0
    let q := decide (quiescent s)
    let bad := s.thr.any (·.bad)
    IO.println s!"> end refs={refs} quiescent={q} bad={bad} lock={s.lock.isSome} readers={s.readers}"
    loop h cfg s
  | t :: rest =>
    match parseEv rest with
    | none => IO.println "> bad-op"; loop h cfg s
    | some ev =>
      let tn := t.toNat!
      match step cfg s tn ev with
      | .ok s' => IO.println s!"> {tn} {evName ev} {describe s s' tn ev}"; loop h cfg s'
      | .blocked => IO.println s!"> {tn} {evName ev} blocked"; loop h cfg s
      | .refused => IO.println s!"> {tn} {evName ev} refused at {repr (s.thread tn).pc}"; loop h cfg s
      | .err (.ub w) => IO.println s!"> {tn} {evName ev} err UB {w}"; loop h cfg s
      | .err (.proto w) => IO.println s!"> {tn} {evName ev} err PROTO {w}"; loop h cfg s
  | _ => loop h cfg s

def run (h : IO.FS.Stream) : IO Unit := loop h ⟨true⟩ (init 1 0)
end Driver.Thr
