import Kdf.Model.Map
/-! Line protocol for stream `map` (C10).

```
new <id>
set <id> <addr> <endoff> <meth> <allocOk 0|1>
search <id> <addr>
reinst <id>
copy <src> <dst> <allocMap 0|1> <allocRanges 0|1>
```
Output: `> <status> <n> <endoff>:<meth> ...` after `set`/`new`, `> <meth>` after
search, `> copy ok|null <n> …` after copy.
-/
namespace Driver.Map
open Kdf.Model.Map

def showMap (m : Map) : String :=
  s!"{m.length}" ++ String.join (m.map fun r => s!" {r.endoff}:{r.meth}")

def showStatus : Status → String
  | .ok => "ok" | .nomem => "nomem" | .oob => "oob"

partial def loop (h : IO.FS.Stream) (maps : Array Map) : IO Unit := do
  let line ← h.getLine
  if line.isEmpty then return ()
  let ws := (line.trimAscii.toString.splitOn " ").filter (· ≠ "")
  match ws with
  | ["new", id] =>
    IO.println "> ok 0"
    loop h (maps.setIfInBounds id.toNat! [])
  | ["set", id, addr, endoff, meth, ok] =>
    let m := maps.getD id.toNat! []
    let (st, m') := mapSet m addr.toNat! ⟨endoff.toNat!, meth.toInt!⟩ (ok == "1")
    IO.println s!"> {showStatus st} {showMap m'}"
    loop h (maps.setIfInBounds id.toNat! m')
  | ["reinst", id] =>
    -- installing the map in a translation system and taking it back is the identity on the map
    IO.println s!"> ok {showMap (maps.getD id.toNat! [])}"
    loop h maps
  | ["search", id, addr] =>
    IO.println s!"> {mapSearch (maps.getD id.toNat! []) addr.toNat!}"
    loop h maps
  | ["copy", src, dst, a1, a2] =>
    match mapCopy (maps.getD src.toNat! []) (a1 == "1") (a2 == "1") with
    | some c => IO.println s!"> copy ok {showMap c}"; loop h (maps.setIfInBounds dst.toNat! c)
    | none => IO.println "> copy null"; loop h maps
  | _ => IO.println "> bad-op"; loop h maps

def run (h : IO.FS.Stream) : IO Unit := loop h (Array.replicate 4 [])
end Driver.Map
