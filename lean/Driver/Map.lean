import Kdf.Model.Map
/-! Line protocol for stream `map` (C10).

```
new <id>
set <id> <addr> <endoff> <meth> <allocOk 0|1>
search <id> <addr>
reinst <id>
copy <src> <dst> <allocMap 0|1> <allocRanges 0|1>
lnew
layout <k> <n> {<first> <last> <meth> <direct 0|1>}*n     -- sys_set_layout, k-th allocation fails (0 = none)
```
Output: `> <status> <n> <endoff>:<meth> ...` after `set`/`new`, `> <meth>` after
search, `> copy ok|null <n> …` after copy.
-/
namespace Driver.Map
open Kdf.Model.Map

def showMap (m : Map) : String :=
  s!"{m.length}" ++ String.join (m.map fun r => s!" {r.endoff}:{r.meth}")

def showStatus : Status → String
  | .ok => "ok" | .nomem => "nomem" | .oob => "oob"

def showSlot : Option Map → String
  | none => "null"
  | some m => showMap m

def parseRegions : List String → List LRegion
  | f :: l :: m :: d :: rest => ⟨f.toNat!, l.toNat!, m.toInt!, d == "1"⟩ :: parseRegions rest
  | _ => []

/-- the allocation stream in which exactly the k-th request fails -/
def failAt (k : Nat) : List Bool := if k = 0 then [] else List.replicate (k - 1) true ++ [false]

partial def loop (h : IO.FS.Stream) (maps : Array Map) (sys : Sys := ⟨none, none⟩) : IO Unit := do
  let line ← h.getLine
  if line.isEmpty then return ()
  let ws := (line.trimAscii.toString.splitOn " ").filter (· ≠ "")
  match ws with
  | ["lnew"] =>
    IO.println "> ok"
    loop h maps ⟨none, none⟩
  | "layout" :: k :: _n :: rest =>
    let (st, sys') := setLayout sys (parseRegions rest) (failAt k.toNat!)
    IO.println s!"> {showStatus st} M {showSlot sys'.map} R {showSlot sys'.rev}"
    loop h maps sys'
  | ["new", id] =>
    IO.println "> ok 0"
    loop h (maps.setIfInBounds id.toNat! []) sys
  | ["set", id, addr, endoff, meth, ok] =>
    let m := maps.getD id.toNat! []
    let (st, m') := mapSet m addr.toNat! ⟨endoff.toNat!, meth.toInt!⟩ (ok == "1")
    IO.println s!"> {showStatus st} {showMap m'}"
    loop h (maps.setIfInBounds id.toNat! m') sys
  | ["reinst", id] =>
    -- installing the map in a translation system and taking it back is the identity on the map
    IO.println s!"> ok {showMap (maps.getD id.toNat! [])}"
    loop h maps sys
  | ["search", id, addr] =>
    IO.println s!"> {mapSearch (maps.getD id.toNat! []) addr.toNat!}"
    loop h maps sys
  | ["copy", src, dst, a1, a2] =>
    match mapCopy (maps.getD src.toNat! []) (a1 == "1") (a2 == "1") with
    | some c => IO.println s!"> copy ok {showMap c}"; loop h (maps.setIfInBounds dst.toNat! c) sys
    | none => IO.println "> copy null"; loop h maps sys
  | _ => IO.println "> bad-op"; loop h maps sys

def run (h : IO.FS.Stream) : IO Unit := loop h (Array.replicate 4 [])
end Driver.Map
