import Driver.Cb
import Driver.Map
import Driver.Read
import Driver.Cache
import Driver.Walk
import Driver.Pfn
import Driver.Err
import Driver.Flat
import Driver.Derived
import Driver.Xen
import Driver.Sys
import Driver.Dump
import Driver.Oom
import Driver.Hist
import Driver.Res
import Driver.Thr
import Driver.Os
import Driver.Attr
import Driver.Bounds
import Driver.Flow

def main (args : List String) : IO UInt32 := do
  let stdin ← IO.getStdin
  match args with
  | ["cb"] => Driver.Cb.run stdin; return 0
  | ["map"] => Driver.Map.run stdin; return 0
  | ["read"] => Driver.Read.run stdin; return 0
  | ["cache"] => Driver.Cache.run stdin; return 0
  | ["walk"] => Driver.Walk.run stdin; return 0
  | ["pfn"] => Driver.Pfn.run stdin; return 0
  | ["err"] => Driver.Err.run stdin; return 0
  | ["flat"] => Driver.Flat.run stdin; return 0
  | ["derived"] => Driver.Derived.run stdin; return 0
  | ["xen"] => Driver.Xen.run stdin; return 0
  | ["sys"] => Driver.Sys.run stdin; return 0
  | ["dump"] => Driver.Dump.run stdin; return 0
  | ["oom"] => Driver.Oom.run stdin; return 0
  | ["hist"] => Driver.Hist.run stdin; return 0
  | ["res"] => Driver.Res.run stdin; return 0
  | ["thr"] => Driver.Thr.run stdin; return 0
  | ["os"] => Driver.Os.run stdin; return 0
  | ["attr"] => Driver.Attr.run stdin; return 0
  | ["bounds"] => Driver.Bounds.run stdin; return 0
  | ["flow"] => Driver.Flow.run stdin; return 0
  | _ => IO.eprintln "usage: kdfdrv <stream>"; return 2
