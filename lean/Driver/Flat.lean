import Kdf.Model.Flat
/-! Line protocol for stream `flat` (C11), see harness/s_flat.c.

```
fopen <path>            -> > fopen <status> flat map <n> <endoff>:<meth>... offs <meth>=<off>... | plain | -
pread <pos> <len>       -> > pread ok <fnv>         (model errors: > pread OOB|NEG)
chunk <pos> <len>       -> > chunk ok <fnv>
path <pos> <len>        -> # path direct|copy|err   (model only, not an observation: which branch of get_chunk)
split <maxpfn>          reset the split layout
sfile <start> <end> <maxbit> <bitmap hex> <descoff>    files in the order they are passed
tprobe <pfn>            -> > tprobe pd=<fidx>:<pos> | pd=-
zx <0|1>                file.zero_excluded of the open set
zprobe <pfn>            -> > zprobe pd=<fidx>:<pos> | zero | nodata
```
The file content is read by the driver and handed to the model as a function.
-/
namespace Driver.Flat
open Kdf.Model.Flat Kdf.Model.Map
open Kdf.Model.Pfn (regionsFromBitmap)

def fnv (data : List Nat) : Nat :=
  data.foldl (fun h c => ((h ^^^ c) * 0x100000001b3) % 2^64) 0xcbf29ce484222325

def hexVal (c : Char) : Nat :=
  if c.isDigit then c.toNat - '0'.toNat else c.toNat - 'a'.toNat + 10
def unhex : List Char → List Nat
  | a :: b :: t => (hexVal a * 16 + hexVal b) :: unhex t
  | _ => []

structure St where
  file : File := fun _ => 0
  opened : Option (Map × List Int) := none
  files : List SFile := []
  maxPfn : Nat := 0
  zeroExcl : Bool := false

def showStatus : Kdf.Model.Flat.Status → String
  | .ok => "ok" | .corrupt => "corrupt" | .notimpl => "notimpl" | .system => "system" | .eof => "eof"

def showOffs (m : Map) (offs : List Int) : String :=
  let present := (List.range offs.length).filter fun (i : Nat) => m.any fun r => r.meth = Int.ofNat i
  String.join (present.map fun i => s!" {i}={offs.getD i 0}")

partial def loop (h : IO.FS.Stream) (s : St) : IO Unit := do
  let line ← h.getLine
  if line.isEmpty then return ()
  let ws := (line.trimAscii.toString.splitOn " ").filter (· ≠ "")
  match ws with
  | ["fopen", path] =>
    let ba ← IO.FS.readBinFile path
    let f : File := fun i => if h : i < ba.size then (ba[i]).toNat else 0
    match flatOpenE f ba.size (ba.size + 2) with
    | .plain => IO.println "> fopen ok plain"; loop h { s with file := f, opened := none }
    | .flat m offs =>
      IO.println (s!"> fopen ok flat map {m.length}" ++ String.join (m.map fun r => s!" {r.endoff}:{r.meth}")
                  ++ " offs" ++ showOffs m offs)
      loop h { s with file := f, opened := some (m, offs) }
    | .err st => IO.println s!"> fopen {showStatus st} -"; loop h { s with file := f, opened := none }
    | .ub => IO.println "> fopen UB"; loop h { s with opened := none }
    | .oob => IO.println "> fopen OOB"; loop h { s with opened := none }
    | .fuel => IO.println "> fopen FUEL"; loop h { s with opened := none }
  | ["pread", pos, len] =>
    match s.opened with
    | none => IO.println "> pread no-map"
    | some (m, offs) =>
      match preadFlat m offs s.file pos.toNat! len.toNat! with
      | .ok d => IO.println s!"> pread ok {fnv d}"
      | .error .oob => IO.println "> pread OOB"
      | .error .neg => IO.println "> pread NEG"
    loop h s
  | ["chunk", pos, len] =>
    match s.opened with
    | none => IO.println "> chunk no-map"
    | some (m, offs) =>
      match getChunkFlat m offs s.file pos.toNat! len.toNat! with
      | .ok (_, d) => IO.println s!"> chunk ok {fnv d}"
      | .error .oob => IO.println "> chunk OOB"
      | .error .neg => IO.println "> chunk NEG"
    loop h s
  | ["path", pos, len] =>
    match s.opened with
    | none => IO.println "# path no-map"
    | some (m, offs) =>
      match getChunkFlat m offs s.file pos.toNat! len.toNat! with
      | .ok (true, _) => IO.println "# path direct"
      | .ok (false, _) => IO.println "# path copy"
      | .error _ => IO.println "# path err"
    loop h s
  | ["split", maxpfn] => loop h { s with files := [], maxPfn := maxpfn.toNat!, zeroExcl := false }
  | ["sfile", sp, ep, maxbit, hex, descoff] =>
    let bm := unhex hex.toList
    let e := min ep.toNat! maxbit.toNat!
    let rs := regionsFromBitmap bm false sp.toNat! e descoff.toNat! PDSZ
    loop h { s with files := s.files ++ [⟨s.files.length, sp.toNat!, ep.toNat!, rs⟩] }
  | ["tprobe", pfn] =>
    match pdLookup (sortFiles s.files) s.maxPfn pfn.toNat! with
    | some (fi, pos) => IO.println s!"> tprobe pd={fi}:{pos}"
    | none => IO.println "> tprobe pd=-"
    loop h s
  | ["zx", b] => loop h { s with zeroExcl := b != "0" }
  | ["zprobe", pfn] =>
    match readPageSrc (sortFiles s.files) s.maxPfn s.zeroExcl pfn.toNat! with
    | .desc fi pos => IO.println s!"> zprobe pd={fi}:{pos}"
    | .zero => IO.println "> zprobe zero"
    | .nodata => IO.println "> zprobe nodata"
    loop h s
  | _ => loop h s      -- lines meant for the harness only

def run (h : IO.FS.Stream) : IO Unit := loop h {}
end Driver.Flat
