import Kdf.Model.Hist
/-! Line protocol for stream `hist` (C04) — the model side of harness/s_hist.c.

```
open <n> <path>...                      reset                       > open ok
layout dd <ps> <max_pfn>                diskdump: page size, max_mapnr
page <pfn> <ok|lzo> <salt>              a frame stored in the file
layout lkcd <ps>
desc <pfn> <ok|comp|badflags> <salt>    LKCD descriptors in FILE order (comp = compressible pattern page)
layout elf <ps>
seg <fileoff> <filesz> <phys> <memsz> <virt> <salt>   PT_LOAD in header order
zx <0|1>                                                            > set ok
setnum cache.size <n> | setnum file.mmap_policy <n>                 > set <status>
read <as> <addr> <len>                                              > <status> <len> <fnv>
stats                                                               > stats <hits> <misses>
F read …                                the same on a fresh model state
anything else (attr, bits, fset, fclr, str, pgt, F …)              > unmodelled
```
The byte stored for physical address `pa` with salt `s` is `contentByte (pa xor s·K)`
(tools/dumpgen.py).  Address spaces other than MACHPHYSADDR (1) — and KVADDR (2)
served directly from ELF segments — are `unmodelled`.
-/
namespace Driver.Hist
open Kdf.Model.Cache Kdf.Model.Hist Kdf.Model.Pfn

def M64 : Nat := 2^64

def contentByte (x : UInt64) : UInt8 :=
  let y := x * 0x9E3779B97F4A7C15 + 0x1234567
  let b := (y >>> 56).toUInt8
  if b == 0 then 1 else b

def saltedByte (pa : Nat) (salt : Nat) : UInt8 :=
  contentByte ((UInt64.ofNat pa) ^^^ (UInt64.ofNat salt * 0x5851F42D4C957F2D))

def framePage (ps pfn salt : Nat) : ByteArray := Id.run do
  let mut b := ByteArray.emptyWithCapacity ps
  for i in [0:ps] do
    b := b.push (saltedByte (pfn * ps + i) salt)
  return b

/-- compressible page of tools/dumpgen.py: the first 64 bytes of the frame, repeated -/
def patternPage (ps pfn salt : Nat) : ByteArray := Id.run do
  let mut b := ByteArray.emptyWithCapacity ps
  for i in [0:ps] do
    b := b.push (saltedByte (pfn * ps + i % 64) salt)
  return b

def zeroPage (n : Nat) : ByteArray := Id.run do
  let mut b := ByteArray.emptyWithCapacity n
  for _ in [0:n] do
    b := b.push 0
  return b

def fnvBytes (h : UInt64) (b : ByteArray) : UInt64 :=
  b.foldl (fun h c => (h ^^^ c.toUInt64) * 0x100000001b3) h

inductive Kst | nodata | notimpl | corrupt | busy | unmodelled
  deriving DecidableEq, Repr

def Kst.name : Kst → String
  | .nodata => "nodata" | .notimpl => "notimpl" | .corrupt => "corrupt" | .busy => "busy"
  | .unmodelled => "unmodelled"

instance : Repr ByteArray := ⟨fun b _ => repr b.size⟩

structure ESeg where
  fileoff : Nat
  filesz : Nat
  phys : Nat
  memsz : Nat
  virt : Nat
  salt : Nat
  deriving Repr, Inhabited

inductive Fmt | none | dd | lkcd | elf
  deriving DecidableEq, Repr

structure St where
  fmt : Fmt := .none
  ps : Nat := 4096
  maxPfn : Nat := 0
  pages : List (Nat × Bool × Nat) := []          -- pfn, decodable?, salt
  descs : List (Nat × (Nat × Nat)) := []         -- pfn, (0 raw | 1 compressed | 2 bad flags, salt)  in file order
  segs : List ESeg := []                         -- header order
  zx : Bool := false
  csize : Nat := 0                               -- current value of cache.size (0 = never set)
  pc : PCache ByteArray := PCache.init 1024
  lk : Lkcd := ⟨0⟩
  lastLoad : Option Nat := none
  lastVload : Option Nat := none
  fcfile : List Nat := []                        -- lines fcfile / fcget: the file behind the file cache

/-- the state a freshly opened context has (settings that are inputs are kept) -/
def St.fresh (s : St) : St := { s with pc := PCache.init 1024, csize := 0, lk := ⟨0⟩, lastLoad := none, lastVload := none }

/-! ### diskdump -/

def ddGuard (s : St) (key : Nat) : Option Kst :=
  let p := key / s.ps
  if p < s.maxPfn ∧ (s.pages.find? (fun x => x.1 = p)).isNone then some .nodata else none

def ddBase (s : St) (key : Nat) : Except Kst ByteArray :=
  let p := key / s.ps
  if p ≥ s.maxPfn then .error .nodata
  else match s.pages.find? (fun x => x.1 = p) with
    | some (_, true, salt) => .ok (framePage s.ps p salt)
    | some (_, false, _) => .error .notimpl
    | none => .error .nodata

def ddPage (s : St) (pageaddr : Nat) : St × Except Kst ByteArray :=
  let key := pageaddr ||| 1
  match guardedGet (ddBase s) (ddGuard s) (zeroPage s.ps) s.zx s.pc key with
  | .ok (pc', .val v) => ({ s with pc := pc' }, .ok v)
  | .ok (pc', .fail e) => ({ s with pc := pc' }, .error e)
  | .ok (pc', .busy) => ({ s with pc := pc' }, .error .busy)
  | .error _ => (s, .error .unmodelled)

/-! ### LKCD -/

def lkPage (s : St) (pageaddr : Nat) : St × Except Kst ByteArray :=
  let key := pageaddr ||| 1
  let p := pageaddr / s.ps
  let (lk', out) := lkLookup s.descs s.lk p
  let f : Nat → Except Kst ByteArray := fun _ =>
    match out with
    | .found (0, salt) => .ok (framePage s.ps p salt)
    | .found (1, salt) => .ok (patternPage s.ps p salt)
    | .found (_, _) => .error .notimpl
    | .notfound => .error .nodata
    | .corrupt => .error .corrupt
  match getPage f s.pc key with
  | .ok (pc', r) =>
    let filled := pc'.c.misses > s.pc.c.misses       -- the fill function ran, so the index advanced
    let s' := { s with pc := pc', lk := if filled then lk' else s.lk }
    match r with
    | .val v => (s', .ok v)
    | .fail e => (s', .error e)
    | .busy => (s', .error .busy)
  | .error _ => (s, .error .unmodelled)

/-! ### ELF -/

def insertBy (key : ESeg → Nat) (x : ESeg) : List ESeg → List ESeg
  | [] => [x]
  | y :: ys => if key x < key y then x :: y :: ys else y :: insertBy key x ys

/-- `qsort(…, seg_phys_cmp)`; the generator never repeats a start address -/
def sortPhys (l : List ESeg) : List ESeg := l.foldl (fun acc x => insertBy (·.phys) x acc) []

def fileByteAt (s : St) (x : Nat) : UInt8 :=
  match s.segs.find? (fun g => g.fileoff ≤ x ∧ x < g.fileoff + g.filesz) with
  | some g => saltedByte (g.phys + (x - g.fileoff)) g.salt
  | none => 0

def fileBytes (s : St) (off n : Nat) (acc : ByteArray) : ByteArray := Id.run do
  let mut b := acc
  for i in [0:n] do
    b := b.push (fileByteAt s (off + i))
  return b

def pushZeros (acc : ByteArray) (n : Nat) : ByteArray := Id.run do
  let mut b := acc
  for _ in [0:n] do
    b := b.push 0
  return b

def elfView (sorted : List ESeg) (virt byFile : Bool) : List Seg :=
  sorted.map fun g => ⟨if virt then g.virt else g.phys, if byFile then g.filesz else g.memsz⟩

def elfUseLast (sorted : List ESeg) (virt : Bool) : Bool :=
  loadsDisjoint (sorted.map fun g => ⟨if virt then g.virt else g.phys, g.memsz, g.filesz⟩) 0

/-- one `find_closest_{mem,file}_{load,vload}` call, threading the remembered pointers -/
def elfFind (s : St) (virt byFile : Bool) (a dist : Nat) : St × Option (Option ESeg) :=
  let sorted := sortPhys s.segs          -- load_sorted and (seg_virt_cmp compares phys!) load_vsorted
  let last := if virt then s.lastVload else s.lastLoad
  match findClosestSC (elfView sorted virt byFile) (elfUseLast sorted virt) last a dist with
  | none => (s, none)
  | some (r, last') =>
    let s' := if virt then { s with lastVload := last' } else { s with lastLoad := last' }
    (s', some (r.bind fun i => sorted[i]?))

/-- `elf_read_page` -/
def elfReadPage (s : St) (virt : Bool) (addr : Nat) : St × Option ByteArray := Id.run do
  let mut st := s
  let mut a := addr
  let mut buf := ByteArray.emptyWithCapacity s.ps
  for _ in [0:4 * s.ps + 8] do
    if buf.size ≥ s.ps then break
    let (st', r) := elfFind st virt false a (s.ps - buf.size)
    st := st'
    match r with
    | none => return (st, none)
    | some none =>
      buf := pushZeros buf (s.ps - buf.size)
    | some (some g) =>
      let loadaddr := if virt then g.virt else g.phys
      if loadaddr > a then
        buf := pushZeros buf (loadaddr - a)
        a := loadaddr
      if loadaddr + g.filesz > a then
        let size := min (s.ps - buf.size) (loadaddr + g.filesz - a)
        buf := fileBytes st (g.fileoff + a - loadaddr) size buf
        a := a + size
      if buf.size < s.ps then
        let size := min (s.ps - buf.size) (loadaddr + g.memsz - a)
        buf := pushZeros buf size
        a := a + size
  return (st, if buf.size = s.ps then some buf else none)

/-- `elf_get_page` -/
def elfPage (s : St) (as pageaddr : Nat) : St × Except Kst ByteArray :=
  let virt := as = 2
  let (s1, r) := elfFind s virt (!s.zx) pageaddr s.ps
  match r with
  | none => (s1, .error .unmodelled)
  | some none => (s1, .error (if virt then .unmodelled else .nodata))
  | some (some g) =>
    let loadaddr := if virt then g.virt else g.phys
    if loadaddr ≤ pageaddr ∧ g.filesz ≥ pageaddr - loadaddr + s.ps then
      (s1, .ok (fileBytes s1 (g.fileoff + pageaddr - loadaddr) s.ps (ByteArray.emptyWithCapacity s.ps)))
    else
      let key := pageaddr ||| as
      let (s2, pg) := elfReadPage s1 virt pageaddr
      match pg with
      | none => (s1, .error .unmodelled)
      | some bytes =>
        match getPage (E := Kst) (fun _ => .ok bytes) s1.pc key with
        | .ok (pc', r) =>
          let filled := pc'.c.misses > s1.pc.c.misses
          let s' := if filled then { s2 with pc := pc' } else { s1 with pc := pc' }
          match r with
          | .val v => (s', .ok v)
          | .fail e => (s', .error e)
          | .busy => (s', .error .busy)
        | .error _ => (s1, .error .unmodelled)

/-! ### `read_locked` -/

def getPageAny (s : St) (as pageaddr : Nat) : St × Except Kst ByteArray :=
  match s.fmt with
  | .dd => if as = 1 then ddPage s pageaddr else (s, .error .unmodelled)
  | .lkcd => if as = 1 then lkPage s pageaddr else (s, .error .unmodelled)
  | .elf => if as = 1 ∨ as = 2 then elfPage s as pageaddr else (s, .error .unmodelled)
  | .none => (s, .error .unmodelled)

/-- returns the state, the status name, the number of bytes delivered and their FNV hash -/
def readLocked (s : St) (as addr len : Nat) : St × String × Nat × UInt64 := Id.run do
  let mut st := s
  let mut a := addr
  let mut remain := len
  let mut h : UInt64 := 0xcbf29ce484222325
  for _ in [0:len + 1] do
    if remain = 0 then break
    let page := a / s.ps * s.ps
    let (st', r) := getPageAny st as page
    st := st'
    match r with
    | .error e => return (st, e.name, len - remain, h)
    | .ok bytes =>
      let off := a % s.ps
      let part := min (s.ps - off) remain
      h := fnvBytes h (bytes.extract off (off + part))
      a := (a + part) % M64
      remain := remain - part
  return (st, "ok", len - remain, h)

def showRead (r : String × Nat × UInt64) : String :=
  if r.1 = "unmodelled" then "unmodelled" else s!"{r.1} {r.2.1} {r.2.2}"

def hexv (c : Char) : Nat := if c.isDigit then c.toNat - '0'.toNat else c.toNat - 'a'.toNat + 10
def hexd (n : Nat) : Char := if n < 10 then Char.ofNat (48 + n) else Char.ofNat (87 + n)

partial def loop (h : IO.FS.Stream) (s : St) : IO Unit := do
  let line ← h.getLine
  if line.isEmpty then return ()
  let ws := (line.trimAscii.toString.splitOn " ").filter (· ≠ "")
  match ws with
  | "open" :: _ => IO.println "> open ok"; loop h {}
  | ["fcfile", hex] =>
    let cs := if hex == "-" then [] else hex.toList
    let rec unhex : List Char → List Nat
      | a :: b :: t => (hexv a * 16 + hexv b) :: unhex t
      | _ => []
    loop h { s with fcfile := unhex cs }
  | ["fcget", pol, pos, n] =>
    -- fcache_get on a file of page size 4096 and mmap window 8192 (Kdf.Model.Hist.fcacheGet)
    let p : Policy := match pol with | "0" => .never | "1" => .always | "2" => .try_ | _ => .tryOnce
    let (p', out) := fcacheGet s.fcfile 4096 8192 p pos.toNat!
    let pn := match p' with | .never => 0 | .always => 1 | .try_ => 2 | .tryOnce => 3
    match out.take n.toNat! with
    | some bs => IO.println s!"> fcget data {String.ofList (bs.flatMap fun b => [hexd (b / 16), hexd (b % 16)])} {pn}"
    | none => IO.println s!"> fcget refused {pn}"
    loop h s
  | ["layout", "dd", ps, mp] => loop h { s with fmt := .dd, ps := ps.toNat!, maxPfn := mp.toNat! }
  | ["layout", "lkcd", ps] => loop h { s with fmt := .lkcd, ps := ps.toNat! }
  | ["layout", "elf", ps] => loop h { s with fmt := .elf, ps := ps.toNat! }
  | ["page", p, k, salt] => loop h { s with pages := s.pages ++ [(p.toNat!, k == "ok", salt.toNat!)] }
  | ["desc", p, k, salt] => loop h { s with descs := s.descs ++ [(p.toNat!, ((if k == "ok" then 0 else if k == "comp" then 1 else 2), salt.toNat!))] }
  | ["seg", fo, fs, ph, ms, vi, salt] =>
    loop h { s with segs := s.segs ++ [⟨fo.toNat!, fs.toNat!, ph.toNat!, ms.toNat!, vi.toNat!, salt.toNat!⟩] }
  | ["close"] => loop h s
  | ["zx", b] => IO.println "> set ok"; loop h { s with zx := b != "0" }
  | ["setnum", "cache.size", n] =>
    if n.toNat! = 0 then do IO.println "> set invalid"; loop h s
    else if n.toNat! = s.csize then do IO.println "> set ok"; loop h s     -- set_attr skips the hooks for an unchanged value
    else do IO.println "> set ok"; loop h { s with pc := PCache.init n.toNat!, csize := n.toNat! }
  | ["setnum", "file.mmap_policy", _] => IO.println "> set ok"; loop h s
  | ["read", as, addr, len] =>
    let (s', r) := readLocked s as.toNat! addr.toNat! len.toNat!
    IO.println s!"> {showRead r}"
    loop h s'
  | ["F", "read", as, addr, len] =>
    let (_, r) := readLocked s.fresh as.toNat! addr.toNat! len.toNat!
    IO.println s!"> {showRead r}"
    loop h s
  | ["stats"] => IO.println s!"> stats {s.pc.c.hits} {s.pc.c.misses}"; loop h s
  | [] => loop h s
  | w :: _ =>
    if w.startsWith "#" then loop h s
    else do IO.println "> unmodelled"; loop h s

def run (h : IO.FS.Stream) : IO Unit := loop h {}
end Driver.Hist
