import Kdf.Model.Dump
/-! Line protocol for stream `dump` (C01).

Layout lines (written by tools/props/c01.py from the layout it encoded; the
harness ignores them):
```
L elf <ps>                                        reset: ELF layout
L seg <fileoff> <filesz> <phys> <memsz> <virt>
L seg <fileoff> <filesz> <phys> <memsz> <virt> <index in the program header table>
L ehdr <e_phnum> <e_shnum> <e_shoff> <sh_size|-> <sh_info|->    header fields as stored (section header 0: - = unreadable);
                                                  the LOAD segments are those among the first elfCounts(..) table entries
L dd <ps> <be 0|1> <maxpfn>                       reset: diskdump layout
L ddfile <fidx> <path> <start> <end> <endbit> <descoff> <bitmap hex>
L lkcd <path> <ps> <be 0|1> <dataoff> <compression> <key bits, 0 = all>
L sadump <ps> <maxpfn> <endbit> <bitmap hex>      reset: SADUMP layout
L ext <datapos> <datalen> <fidx>
L s390 <dataoff> <maxpfn> <ps>
```
Operations (same lines as the harness gets):
```
open …                      ->  > open ok                  (dynamic state reset)
setnum file.zero_excluded v ->  > set ok
attr max_pfn                ->  (nothing; LKCD: the whole stream is indexed)
rdc <as> <addr> <len>       ->  > P1;P2;…   symbolic page results from the page of addr to the
                                             first failing page or the end of the range
rle <dstlen> <hex|->        ->  > rle ok <hex|-> | > rle err | > rle OOB
fault <off> <kind>          ->  > fault ok                 the next read of the LKCD descriptor at <off> fails once
unfault                     ->  > fault fired|pending
```
Symbolic page results: `nodata zero notimpl corrupt ioerr eof xlat oob`,
`data:<fidx>:<off>:<size>:<method>`, `chunk:<off>`, `pieces:z<n>,f<off>+<n>,…`.
-/
namespace Driver.Dump
open Kdf.Model.Pfn Kdf.Model.Dump

inductive Fmt | none | elf | dd | lkcd | sadump | s390
  deriving DecidableEq

structure St where
  fmt : Fmt := .none
  ps : Nat := 4096
  be : Bool := false
  maxPfn : Nat := 0
  zx : Bool := false
  -- ELF
  segs : List LoadSeg := []
  phtab : List (Nat × LoadSeg) := []
  sortedC : Option (List LoadSeg × List LoadSeg) := none
  last : ElfLast := {}
  -- diskdump
  ddmaps : List (FileMap × Nat) := []
  ddfiles : List (Nat × ByteArray) := []
  -- LKCD
  lkfile : ByteArray := ByteArray.empty
  lkDataOff : Nat := 0
  lkComp : Nat := 0
  lkKeyBits : Nat := 0
  lk : LkcdState := ⟨0, 0, [], 0⟩
  bad : Option Nat := none
  fired : Bool := false
  -- SADUMP
  regions : List Region := []
  exts : List Extent := []
  -- s390
  dataoff : Nat := 0

def hexVal (c : Char) : Nat :=
  if c.isDigit then c.toNat - '0'.toNat else c.toNat - 'a'.toNat + 10
def unhex : List Char → List Nat
  | a :: b :: t => (hexVal a * 16 + hexVal b) :: unhex t
  | _ => []
def hexDigit (n : Nat) : Char := if n < 10 then Char.ofNat (48 + n) else Char.ofNat (87 + n)
def toHex (l : List Nat) : String := String.ofList (l.flatMap fun b => [hexDigit (b / 16), hexDigit (b % 16)])

def log2 (n : Nat) : Nat := Nat.log2 n

/-- unsigned field of `n` bytes at `off` -/
def field (f : ByteArray) (be : Bool) (off n : Nat) : Option Nat :=
  if off + n ≤ f.size then
    let bytes := (List.range n).map fun i => (f.get! (off + i)).toNat
    some (if be then bytes.foldl (fun a b => a * 256 + b) 0 else bytes.foldr (fun b a => a * 256 + b) 0)
  else none

def ddDesc (s : St) (fidx pos : Nat) : Option PageDesc :=
  match s.ddfiles.find? (·.1 = fidx) with
  | none => none
  | some (_, f) =>
    match field f s.be pos 8, field f s.be (pos + 8) 4, field f s.be (pos + 12) 4 with
    | some o, some sz, some fl => some ⟨o, sz, fl⟩
    | _, _, _ => none

def lkDesc (s : St) (off : Nat) : Option LkcdDesc :=
  match field s.lkfile s.be off 8, field s.lkfile s.be (off + 8) 4, field s.lkfile s.be (off + 12) 4 with
  | some a, some sz, some fl => some ⟨a, sz, fl⟩
  | _, _, _ => none

def lkKey (s : St) (pfn : Nat) : Nat := if s.lkKeyBits = 0 then pfn else pfn % 2^s.lkKeyBits

def showMethod : Method → String
  | .raw => "raw" | .zlib => "zlib" | .lzo => "lzo" | .snappy => "snappy" | .zstd => "zstd"
  | .rle => "rle" | .gzip => "gzip"

/-- (printed form, is the page delivered?) -/
def showLoc (zx : Bool) : PageLoc → String × Bool
  | .oob => ("nodata", false)
  | .excluded => if zx then ("zero", true) else ("nodata", false)
  | .data f o sz m => (s!"data:{f}:{o}:{sz}:{showMethod m}", true)
  | .corrupt => ("corrupt", false)
  | .notimpl => ("notimpl", false)
  | .ioerr => ("ioerr", false)

def showPiece : Piece → String
  | .zero n => s!"z{n}"
  | .file off n => s!"f{off}+{n}"

/-- one page of the current dump; returns the new state, the printed result and
whether the read loop goes on -/
def pageAt (s : St) (as addr : Nat) : St × String × Bool :=
  let shift := log2 s.ps
  let pfn := addr / s.ps
  match s.fmt with
  | .elf =>
    if as = 0 then (s, "xlat", false)
    else
      let kv := as = 2
      let (sorted, vsorted) := match s.sortedC with
        | some p => p
        | none => (s.segs.mergeSort (fun a b => a.phys ≤ b.phys), s.segs.mergeSort (fun a b => a.virt ≤ b.virt))
      let (last', r) := elfGetPage sorted vsorted s.last kv s.zx addr s.ps
      let s' := { s with last := last', sortedC := some (sorted, vsorted) }
      match r with
      | .nodata => (s', "nodata", false)
      | .needXlat => (s', "xlat", false)
      | .chunk off => (s', s!"chunk:{off}", true)
      | .pieces l => (s', "pieces:" ++ ",".intercalate (l.map showPiece), true)
      | .oob => (s', "oob", false)
  | .dd =>
    let maps := s.ddmaps.mergeSort (fun a b => a.1.endPfn ≤ b.1.endPfn)
    let (t, ok) := showLoc s.zx (ddLocate maps s.maxPfn s.ps (ddDesc s) pfn)
    (s, t, ok)
  | .lkcd =>
    let (lk', r) : LkcdState × Option LkcdFind := match s.bad with
      | none => let x := lkGet (lkDesc s) shift (lkKey s) 1000000 s.lk pfn; (x.1, some x.2)
      | some b => lkGetF (lkDesc s) shift (lkKey s) b 1000000 s.lk pfn
    let s' := { s with lk := lk' }
    match r with
    | none => ({ s' with bad := none, fired := true }, "ioerr", false)     -- the transient failure
    | some (.found off dp) =>
      let (t, ok) := showLoc false (lkLocate s.lkComp s.ps (2^18) off dp)
      (s', t, ok)
    | some .nodata => (s', "nodata", false)
    | some .dup => (s', "corrupt", false)
    | some .eof => (s', "eof", false)
  | .sadump =>
    let (t, ok) := showLoc s.zx (sadumpLocate s.regions s.exts s.maxPfn s.ps pfn)
    (s, t, ok)
  | .s390 =>
    let (t, ok) := showLoc s.zx (s390Locate s.dataoff s.maxPfn s.ps shift addr)
    (s, t, ok)
  | .none => (s, "no-layout", false)

/-- the `while (remain)` loop of `read_locked` over symbolic pages -/
def readPages (s : St) (as : Nat) : Nat → Nat → Nat → List String → St × List String
  | 0, _, _, acc => (s, acc)
  | fuel+1, addr, remain, acc =>
    if remain = 0 then (s, acc)
    else
      let pa := addr - addr % s.ps
      let (s', t, ok) := pageAt s as pa
      if ok then
        let part := min (s.ps - addr % s.ps) remain
        readPages s' as fuel ((addr + part) % 2^64) (remain - part) (acc ++ [t])
      else (s', acc ++ [t])

def showRle : RleResult → String
  | .ok out => "> rle ok " ++ (if out.isEmpty then "-" else toHex out)
  | .err => "> rle err"
  | .oobRead => "> rle OOB-READ"
  | .oobWrite => "> rle OOB-WRITE"

partial def loop (h : IO.FS.Stream) (s : St) : IO Unit := do
  let line ← h.getLine
  if line.isEmpty then return ()
  let ws := (line.trimAscii.toString.splitOn " ").filter (· ≠ "")
  match ws with
  | "open" :: _ =>
    IO.println "> open ok"
    loop h {}
  | ["L", "elf", ps] => loop h { fmt := .elf, ps := ps.toNat! }
  | ["L", "seg", fo, fs, ph, ms, vi] =>
    loop h { s with segs := s.segs ++ [⟨fo.toNat!, fs.toNat!, ph.toNat!, ms.toNat!, vi.toNat!⟩], sortedC := none }
  | ["L", "seg", fo, fs, ph, ms, vi, idx] =>
    loop h { s with phtab := (idx.toNat!, ⟨fo.toNat!, fs.toNat!, ph.toNat!, ms.toNat!, vi.toNat!⟩) :: s.phtab }
  | ["L", "ehdr", pn, sn, so, ssz, sinfo] =>
    let sh0 := if ssz == "-" then none else some (ssz.toNat!, sinfo.toNat!)
    match elfCounts pn.toNat! sn.toNat! so.toNat! sh0 with
    | some (_, phnum) => loop h { s with segs := elfLoads s.phtab phnum, sortedC := none }
    | none => loop h { s with segs := [], sortedC := none }
  | ["L", "dd", ps, be, mx] => loop h { fmt := .dd, ps := ps.toNat!, be := be == "1", maxPfn := mx.toNat! }
  | ["L", "ddfile", fidx, path, sp, ep, endbit, descoff, hex] =>
    let f ← IO.FS.readBinFile path
    let bm := unhex hex.toList
    let e := min ep.toNat! endbit.toNat!
    let rs := regionsFromBitmap bm false sp.toNat! e descoff.toNat! 24
    loop h { s with ddmaps := s.ddmaps ++ [(⟨rs, sp.toNat!, ep.toNat!⟩, fidx.toNat!)],
                    ddfiles := s.ddfiles ++ [(fidx.toNat!, f)] }
  | ["L", "lkcd", path, ps, be, dataoff, comp, kb] =>
    let f ← IO.FS.readBinFile path
    loop h { fmt := .lkcd, ps := ps.toNat!, be := be == "1", lkfile := f, lkDataOff := dataoff.toNat!,
             lkComp := comp.toNat!, lkKeyBits := kb.toNat!, lk := ⟨dataoff.toNat!, 0, [], 0⟩ }
  | ["L", "sadump", ps, mx, endbit, hex] =>
    let rs := regionsFromBitmap (unhex hex.toList) true 0 endbit.toNat! 0 ps.toNat!
    loop h { fmt := .sadump, ps := ps.toNat!, maxPfn := mx.toNat!, regions := rs }
  | ["L", "ext", dp, dl, fi] => loop h { s with exts := s.exts ++ [⟨dp.toNat!, dl.toNat!, fi.toNat!⟩] }
  | ["L", "s390", dataoff, mx, ps] =>
    loop h { fmt := .s390, ps := ps.toNat!, maxPfn := mx.toNat!, dataoff := dataoff.toNat! }
  | ["setnum", "file.zero_excluded", v] =>
    IO.println "> set ok"
    loop h { s with zx := v != "0" }
  | ["attr", "max_pfn"] =>
    -- lkcd_max_pfn_revalidate: search for the impossible frame ~0 indexes the whole stream
    if s.fmt == .lkcd then
      if s.lk.lastOffset = s.lk.endOffset then loop h s
      else match s.bad with
        | none => loop h { s with lk := (lkSearch (lkDesc s) (log2 s.ps) (lkKey s) (2^64 - 1) 1000000 s.lk).1 }
        | some b =>
          let r := lkSearchF (lkDesc s) (log2 s.ps) (lkKey s) (2^64 - 1) b 1000000 s.lk
          if r.2.isNone then loop h { s with lk := r.1, bad := none, fired := true }
          else loop h { s with lk := r.1 }
    else loop h s
  | "attr" :: _ => loop h s
  | ["rdc", as, addr, len] =>
    let (s', l) := readPages s as.toNat! (len.toNat! + 1) addr.toNat! len.toNat! []
    IO.println ("> " ++ ";".intercalate l)
    loop h s'
  | ["fault", off, _kind] =>
    IO.println "> fault ok"
    loop h { s with bad := some off.toNat!, fired := false }
  | ["unfault"] =>
    IO.println (if s.fired then "> fault fired" else "> fault pending")
    loop h { s with bad := none, fired := false }
  | ["rle", dstlen, hex] =>
    IO.println (showRle (uncompressRle (if hex == "-" then [] else unhex hex.toList) dstlen.toNat!))
    loop h s
  | _ => loop h s

def run (h : IO.FS.Stream) : IO Unit := loop h {}
end Driver.Dump
