import Kdf.Model.Xen
/-! Line protocol for stream `xen` (C19) — see `harness/s_xen.c`.

```
build <failAt> <n> <pfn>...          > build ok R <pfn>:<idx>:<len> ... S <pfn>:<idx> ... | build system
search <pfn>                         > search <idx>|none
tbl <shift> <swap> <mapoff> <pagesoff> <nonauto> <n> <pfn> <mfn> ...   > tbl ok
p2m <addr> / m2p <addr>              > p2m ok <base> <idx0> <remain> <elemsz> | p2m nodata
gp <as> <addr>                       > gp ok <offset> <len> | gp nodata
dump <nonauto> <be> <shift> <mapoff> <pagesoff> <n> <pfn> <mfn> ...    (no output: layout of the next file)
open <path> <virt_bits>              > open ok       (a new context)
reopen <path> <virt_bits> <how>      > reopen ok     (the same context is given the file of the last `dump` line)
page <as> <frame>                    > page ok <idx> <pfn> 1 | page nodata
rd <as> <addr>                       > rd ok <hex of 8 bytes> | rd nodata -
conv <from> <to> <addr>              > conv ok <addr> | conv fail
openf <n> <P|M|-> <k> <path> <vbits> > open ok | open system      (`open` with the k-th realloc of that index failing)
reinit <fetch> <os> <key> <kind> <value>   > reinit ok ok|fail|-
      an option change (flags the translation dirty); fetch=1: followed by kdump_get_addrxlat,
      whose set-up succeeds (os=0), fails after the wipe (os=1) or before it (os=2)
kv <addr>                            > kv done      a read that needs translation (lazy set-up, succeeds)
close
```
`failAt` (1-based, 0 = never) is the number of the `realloc` call that fails.
Address spaces: 0 = KPHYSADDR, 1 = MACHPHYSADDR.
-/
namespace Driver.Xen
open Kdf.Model.Xen

def showMap (m : PMap) : String :=
  " R" ++ String.join (m.ranges.map fun r => s!" {r.pfn}:{r.idx}:{r.len}") ++
  " S" ++ String.join (m.singles.map fun s => s!" {s.pfn}:{s.idx}")

def junk : Nat := 0xA5A5A5A5A5A5A5A5

def allOk : Nat → Bool := fun _ => true

def asOf (n : Nat) : AS := if n == 0 then .kphys else if n == 1 then .machphys else .other

def pairs : List Nat → List (Nat × Nat)
  | a :: b :: rest => (a, b) :: pairs rest
  | _ => []

def mkTbl (be : Bool) (vals : List Nat) : List Entry :=
  (pairs vals).map fun (p, m) => ⟨toh be p, toh be m⟩

def hex2 (b : Nat) : String :=
  let d := "0123456789abcdef".toList
  String.ofList [d.getD (b / 16) '?', d.getD (b % 16) '?']

structure St where
  one : Option PMap := none
  direct : Option Dump := none
  file : Option Dump := none
  xlat : Xlat := {}
  /-- stored number of `xen.xlat` of the context that is open -/
  stored : Bool := false
  /-- layout of the next file (`dump` line) -/
  pending : Option Spec := none

def showStep (name : String) (r : Except Err Step) : String :=
  match r with
  | .ok s => s!"> {name} ok {s.base} {s.idx0} {s.remain} {s.elemsz}"
  | .error .nodata => s!"> {name} nodata"
  | .error .overflow => s!"> {name} overflow"

partial def loop (h : IO.FS.Stream) (st : St) : IO Unit := do
  let line ← h.getLine
  if line.isEmpty then return ()
  let ws := (line.trimAscii.toString.splitOn " ").filter (· ≠ "")
  match ws with
  | "build" :: failAt :: _n :: vals =>
    let fa := failAt.toNat!
    let ok : Nat → Bool := fun k => fa == 0 || k + 1 != fa
    match build ok junk (vals.map String.toNat!) with
    | some m => IO.println ("> build ok" ++ showMap m); loop h { st with one := some m }
    | none => IO.println "> build system"; loop h { st with one := none }
  | ["search", p] =>
    match st.one with
    | none => IO.println "> search nomap"
    | some m =>
      let r := search m p.toNat!
      IO.println (if r == IDX_NONE then "> search none" else s!"> search {r}")
    loop h st
  | "tbl" :: shift :: swap :: mo :: po :: na :: _n :: vals =>
    let be := swap == "1"
    match mkDump allOk allOk junk junk (na == "1") be shift.toNat! mo.toNat! po.toNat! (mkTbl be (vals.map String.toNat!)) with
    | some d => IO.println "> tbl ok"; loop h { st with direct := some d }
    | none => IO.println "> tbl system"; loop h { st with direct := none }
  | ["p2m", a] =>
    match st.direct with
    | none => IO.println "> notbl"
    | some d => IO.println (showStep "p2m" (p2mFirstStep d a.toNat!))
    loop h st
  | ["m2p", a] =>
    match st.direct with
    | none => IO.println "> notbl"
    | some d => IO.println (showStep "m2p" (m2pFirstStep d a.toNat!))
    loop h st
  | ["gp", as, a] =>
    match st.direct with
    | none => IO.println "> notbl"
    | some d =>
      match getPage d (asOf as.toNat!) a.toNat! with
      | .ok off => IO.println s!"> gp ok {off} {2^d.shift}"
      | .error .nodata => IO.println "> gp nodata"
      | .error .overflow => IO.println "> gp overflow"
    loop h st
  | "dump" :: na :: be :: shift :: mo :: po :: _n :: vals =>
    let b := be == "1"
    loop h { st with pending := some ⟨na == "1", b, shift.toNat!, mo.toNat!, po.toNat!, mkTbl b (vals.map String.toNat!)⟩ }
  | ["open", _, _] =>
    -- a new context; the harness sets the paging mode and fetches the translation handles
    match st.pending.bind (openCtx allOk allOk junk junk {}) with
    | some c =>
      IO.println "> open ok"
      let c := (fetchXlat .ok { c with x := setOpt c.x }).2
      loop h { st with file := c.file, xlat := c.x, stored := c.xenXlat }
    | none => IO.println "> open system"; loop h { st with file := none, xlat := {}, stored := false }
  | ["openf", _, mp, k, _, _] =>
    -- a new context; the k-th realloc of the guest-frame (P) or machine-frame (M) index fails
    let fa := k.toNat!
    let okP : Nat → Bool := fun i => !(mp == "P" && i + 1 == fa)
    let okM : Nat → Bool := fun i => !(mp == "M" && i + 1 == fa)
    match st.pending.bind (openCtx okP okM junk junk {}) with
    | some c =>
      IO.println "> open ok"
      let c := (fetchXlat .ok { c with x := setOpt c.x }).2
      loop h { st with file := c.file, xlat := c.x, stored := c.xenXlat }
    | none => IO.println "> open system"; loop h { st with file := none, xlat := {}, stored := false }
  | ["reopen", _, _, _] =>
    -- the context that is open is given the next file
    match st.file with
    | none => IO.println "> reopen noctx"; loop h st
    | some _ =>
      match st.pending.bind (openCtx allOk allOk junk junk ⟨st.stored, st.file, st.xlat⟩) with
      | some c =>
        IO.println "> reopen ok"
        let c := (fetchXlat .ok { c with x := setOpt c.x }).2
        loop h { st with file := c.file, xlat := c.x, stored := c.xenXlat }
      | none => IO.println "> reopen system"; loop h { st with file := none, xlat := {}, stored := false }
  | ["reinit", fetch, os, _key, kind, _val] =>
    match st.file with
    | none => IO.println "> reinit noctx"; loop h st
    | some d =>
      let x := if kind == "x" then st.xlat else setOpt st.xlat      -- x: no change, the application only asks again
      if fetch == "1" then
        let o : OsInit := if os == "0" then .ok else if os == "1" then .failWiped else .failEarly
        let (ok, x') := revalidate d o x
        IO.println (if ok then "> reinit ok ok" else "> reinit ok fail")
        loop h { st with xlat := x' }
      else
        IO.println "> reinit ok -"
        loop h { st with xlat := x }
  | ["kv", _] =>
    match st.file with
    | none => IO.println "> kv noctx"; loop h st
    | some d => IO.println "> kv done"; loop h { st with xlat := (revalidate d .ok st.xlat).2 }
  | ["close"] => loop h st
  | ["page", as, f] =>
    match st.file with
    | none => IO.println "> page noctx"
    | some d =>
      match getPage d (asOf as.toNat!) (f.toNat! * 2^d.shift % W) with
      | .ok off =>
        let idx := (off - d.pagesOff) / 2^d.shift
        match d.tbl[idx]? with
        | some e => IO.println s!"> page ok {idx} {toh d.be e.pfn} 1"
        | none => IO.println "> page beyond-file"
      | .error .nodata => IO.println "> page nodata"
      | .error .overflow => IO.println "> page overflow"
    loop h st
  | ["rd", as, a] =>
    match st.file with
    | none => IO.println "> rd noctx"
    | some d =>
      let addr := a.toNat!
      match getPage d (asOf as.toNat!) addr with
      | .ok off =>
        let idx := (off - d.pagesOff) / 2^d.shift
        match d.tbl[idx]? with
        | some e =>
          let o := addr % 2^d.shift
          let tag : Nat := idx + toh d.be e.pfn * 2^64      -- 16 bytes, little endian
          let bytes := (List.range 8).map fun k => tag / 2^(8 * ((o + k) % 16)) % 256
          IO.println ("> rd ok " ++ String.join (bytes.map hex2))
        | none => IO.println "> rd beyond-file"
      | .error _ => IO.println "> rd nodata -"
    loop h st
  | ["conv", f, t, a] =>
    match st.file with
    | none => IO.println "> conv noctx"
    | some d =>
      let r := if f == "0" && t == "1" then convP2m d st.xlat a.toNat!
               else if f == "1" && t == "0" then convM2p d st.xlat a.toNat! else some (.error .nodata)
      match r with
      | some (.ok x) => IO.println s!"> conv ok {x}"
      | some (.error _) => IO.println "> conv fail"
      | none => IO.println "> conv arch-default"
    loop h st
  | [] => loop h st
  | _ => IO.println "> bad-op"; loop h st

def run (h : IO.FS.Stream) : IO Unit := loop h {}
end Driver.Xen
