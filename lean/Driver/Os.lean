import Kdf.Model.Layout
import Kdf.Model.Scan
import Kdf.Model.PgtArch
import Kdf.Model.OsPick
import Driver.Sys
/-! Line protocol for stream `os` (C08).  See harness/s_os.c for the twin.

```
clr                                         fresh system, zero memory, no overrides, rcaps 7
newsys                                      fresh system only
mem <seed> <and0> <or0> <and1> <or1> <be>   memory function parameters (32-bit cells)
ovr <as> <addr4> <val32>                    override one cell
rcaps <mask>                                answer of the read_caps callback
meth <slot> nometh | linear <t> <off> | pgt <fmt> <t> <root_as> <root_addr> <pte_mask> <f0,f1,..>
layout <mapidx> <first:last:meth:act,...>   sys_set_layout       ->  > layout <status>, dump, > end
physmaps <maxaddr>                          sys_set_physmaps     ->  > physmaps <status>, dump, > end
scan lm|hm|lu <slot> <addr> <limit>         lowest_mapped / highest_mapped / lowest_unmapped
scan hl <slot> <addr> <limit> <off>         highest_linear
                                            ->  > scan <kind> <status> <addr> [<as> <base>]
ospick pae <root_as> <root_addr> <direct>   check_pae (ia32.c)            ->  > ospick pae 52|32|fail
ospick root <opt_as> <opt_addr> <cr3> <sym> get_linux_pgt_root (ia32.c), `-` = absent  ->  > ospick root <as> <addr>
ospick xentext <slot>                       text probe sequence of map_xen_x86_64 through method <slot>
                                            ->  > ospick xentext <first> <directmap-1T 0|1> | none
dump                                        ->  > map <i> none|empty|<endoff:meth,...>  (5 lines)
                                                > meth <i> ...                            (non-NOMETH slots), > end
```
`act`: 0 none, 1 direct, 2 rdirect, 3 ident_kphys, 4 ident_machphys.
The harness also understands `sym`, `osinit`, `q`, `rt`, `probe`, `conv`, `hw` (image scripts, evaluated
against the Python oracle of tools/props/c08.py, not modelled here) and appends ` | …` measurements.
-/
namespace Driver.Os
open Kdf.Model.Pgt Kdf.Model.Sys Kdf.Model.Layout Kdf.Model.Scan Driver.Sys

structure St where
  mem : MemCfg := {}
  ls : LSys := fresh
  rcaps : Nat := 7

def cfgOf (s : St) : Cfg := ⟨some s.ls.sys, s.rcaps, pmOf s.mem⟩

/-- memory as `read32`/`read64` see it from a top-level step (empty in-flight list) -/
def sysMem (s : St) : Mem := fun as addr size =>
  if capsHas s.rcaps as then pmOf s.mem as addr size
  else nestedRead (pmOf s.mem) size (opTop (cfgOf s) s.rcaps ⟨addr, as⟩)

def showSt : Kdf.Model.Layout.St → String
  | .ok => "ok" | .nomem => "nomem" | .oob => "OOB" | .undef => "UNDEF"

def fmtName : PteFormat → String
  | .none => "none" | .pfn32 => "pfn32" | .pfn64 => "pfn64" | .aarch64 => "aarch64"
  | .aarch64Lpa => "aarch64_lpa" | .aarch64Lpa2 => "aarch64_lpa2" | .arm => "arm" | .ia32 => "ia32"
  | .ia32Pae => "ia32_pae" | .ppc64LinuxRpn30 => "ppc64_linux_rpn30" | .riscv32 => "riscv32"
  | .riscv64 => "riscv64" | .s390x => "s390x" | .x86_64 => "x86_64"

def dump (s : St) : IO Unit := do
  for i in List.range 5 do
    match s.ls.sys.maps[i]? with
    | some (some []) => IO.println s!"> map {i} empty"
    | some (some m) => IO.println s!"> map {i} {showMap m}"
    | _ => IO.println s!"> map {i} none"
  for i in List.range 16 do
    match s.ls.sys.meths[i]? with
    | some (.linear t off) => IO.println s!"> meth {i} linear {showAs t} {off}"
    | some (.pgt t root mask pf) =>
      let ra := if root.as = NOADDR then 0 else root.addr
      IO.println s!"> meth {i} pgt {fmtName pf.fmt} {showAs t} {showAs root.as} {ra} {mask} {",".intercalate (pf.fieldsz.map toString)}"
    | some (.memarr t base shift elemsz valsz) =>
      IO.println s!"> meth {i} memarr {showAs t} {showAs base.as} {base.addr} {shift} {elemsz} {valsz}"
    | some (.lookup t endoff tbl) =>
      let es := if tbl.isEmpty then "-" else ",".intercalate (tbl.map fun (o, d) => s!"{o}:{d}")
      IO.println s!"> meth {i} lookup {showAs t} {endoff} {es}"
    | _ => pure ()
  IO.println "> end"

def actOf : String → Act
  | "1" => .direct | "2" => .rdirect | "3" => .identKphys | "4" => .identMachphys | _ => .none

def regionsOf (s : String) : List Region :=
  (s.splitOn ",").filter (· ≠ "") |>.filterMap fun e =>
    match e.splitOn ":" with
    | [f, l, m, a] => some ⟨f.toNat!, l.toNat!, m.toNat!, actOf a⟩
    | _ => none

def setM (s : St) (slot : String) (m : Meth) : St :=
  match Kdf.Model.Layout.setMeth s.ls slot.toNat! m with
  | some ls => { s with ls := ls }
  | none => s

def scan (s : St) (kind : String) (slot addr limit off : Nat) : String :=
  match s.ls.sys.meths[slot]? with
  | some (.pgt t root mask pf) =>
    let m := Meth.pgt t root mask pf
    let mem := sysMem s
    let launch := firstStep m
    let sf := stepOnce Kdf.Model.PgtArch.extra mem m
    let showRes (withBase : Bool) : Res → String
      | .done st a stp =>
        s!"> scan {kind} {showStatus st} {a}" ++
          (if withBase ∧ st = .ok then s!" {showAs stp.base.as} {stp.base.addr}" else "")
      | .fuel => s!"> scan {kind} FUEL"
      | .undef => s!"> scan {kind} UNDEF"
    if kind = "lm" then showRes true (lowestMapped launch sf pf addr limit)
    else if kind = "hm" then showRes true (highestMapped launch sf pf addr limit)
    else if kind = "lu" then showRes false (lowestUnmapped launch sf pf addr limit)
    else
      let cv (va : Nat) : XStatus × Nat :=
        match conv (cfgOf s) KPHYS ⟨va, KV⟩ with
        | some (st, fa) => (st, fa.addr)
        | none => (.invalid, 0)
      match highestLinear launch sf pf cv limit off (2^22) addr addr .notpresent with
      | .done st a => s!"> scan {kind} {showStatus st} {a}"
      | .fuel => s!"> scan {kind} FUEL"
      | .undef => s!"> scan {kind} UNDEF"
  | _ => s!"> scan {kind} UNMODELLED"

def optNat (w : String) : Option Nat := if w = "-" then none else some w.toNat!

def ospick (s : St) : List String → String
  | ["pae", ras, raddr, direct] =>
    let withPm (mx : Nat) : Mem := sysMem { s with ls := (setPhysmaps true s.ls mx).2 }
    match Kdf.Model.OsPick.checkPae Kdf.Model.PgtArch.extra (withPm (2^52 - 1)) (withPm (2^32 - 1))
            ⟨raddr.toNat!, asOf ras⟩ direct.toNat! with
    | some b => s!"> ospick pae {b}"
    | none => "> ospick pae fail"
  | ["root", oas, oaddr, cr3, sym] =>
    let opt : Option FullAddr := if oas = "-" then none else some ⟨oaddr.toNat!, asOf oas⟩
    let r := Kdf.Model.OsPick.ia32LinuxRoot opt (optNat cr3) (optNat sym)
    s!"> ospick root {showAs r.as} {r.addr}"
  | ["xentext", slot] =>
    match s.ls.sys.meths[slot.toNat!]? with
    | some m =>
      (match Kdf.Model.OsPick.xenTextPick (Kdf.Model.OsPick.isXenKtext Kdf.Model.PgtArch.extra (sysMem s) m) with
       | some (a, f) => s!"> ospick xentext {a} {if f then 1 else 0}"
       | none => "> ospick xentext none")
    | none => "> ospick UNMODELLED"
  | _ => "> bad-op"

partial def loop (h : IO.FS.Stream) (s : St) : IO Unit := do
  let line ← h.getLine
  if line.isEmpty then return ()
  let ws := (line.trimAscii.toString.splitOn " ").filter (· ≠ "")
  match ws with
  | [] => loop h s
  | ["clr"] => loop h {}
  | ["newsys"] => loop h { s with ls := fresh }
  | ["mem", seed, a0, o0, a1, o1, be] =>
    loop h { s with mem := { s.mem with seed := seed.toNat!, and0 := a0.toNat!, or0 := o0.toNat!,
                                        and1 := a1.toNat!, or1 := o1.toNat!, be := be == "1" } }
  | ["ovr", as, a4, v] => loop h { s with mem := { s.mem with ovr := (as.toNat!, a4.toNat!, v.toNat!) :: s.mem.ovr } }
  | ["rcaps", m] => loop h { s with rcaps := m.toNat! }
  | ["meth", slot, "pgt", fmt, t, ras, raddr, mask, fields] =>
    loop h (setM s slot (.pgt (asOf t) ⟨raddr.toNat!, asOf ras⟩ mask.toNat! ⟨fmtOf fmt, nums fields ","⟩))
  | ["meth", slot, "linear", t, off] => loop h (setM s slot (.linear (asOf t) off.toNat!))
  | ["meth", slot, "nometh"] => loop h (setM s slot .nometh)
  | ["layout", idx, rs] =>
    let (st, ls) := setLayout true s.ls idx.toNat! (regionsOf rs)
    IO.println s!"> layout {showSt st}"
    let s' := { s with ls := ls }
    dump s'
    loop h s'
  | ["physmaps", mx] =>
    let (st, ls) := setPhysmaps true s.ls mx.toNat!
    IO.println s!"> physmaps {showSt st}"
    let s' := { s with ls := ls }
    dump s'
    loop h s'
  | "ospick" :: rest => IO.println (ospick s rest); loop h s
  | ["dump"] => dump s; loop h s
  | ["scan", kind, slot, addr, limit] =>
    IO.println (scan s kind slot.toNat! addr.toNat! limit.toNat! 0); loop h s
  | ["scan", kind, slot, addr, limit, off] =>
    IO.println (scan s kind slot.toNat! addr.toNat! limit.toNat! off.toNat!); loop h s
  | _ => if (ws.headD "").startsWith "#" then loop h s else do IO.println "> bad-op"; loop h s

def run (h : IO.FS.Stream) : IO Unit := loop h {}
end Driver.Os
