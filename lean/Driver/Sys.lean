import Kdf.Model.Sys
/-! Line protocol for stream `sys` (C09).  See harness/s_sys.c for the twin.

```
mem <seed> <and0> <or0> <and1> <or1> <be>   memory function parameters (32-bit cells)
ovr <as> <addr4> <val32>                    override one cell
bad <as> <page> <status>                    get_page fails for that 4 KiB page
null <as> <page>                            get_page succeeds without data (ptr NULL)
clr                                         drop overrides and bad pages
newsys                                      fresh system (all maps NULL, all methods NOMETH)
rcaps <mask>                                answer of the read_caps callback
nosys <0|1>                                 pass a NULL system
meth <slot> nometh | linear <t> <off> | pgt <fmt> <t> <root_as> <root_addr> <pte_mask> <f0,f1,..>
          | lookup <t> <endoff> [<o:d,...>] | memarr <t> <base_as> <base_addr> <shift> <elemsz> <valsz>
map <idx> none | <endoff:meth,...>          ->  > map <idx> none | <endoff:meth,...>
op <caps> <as> <addr> <cbstatus>            ->  > op <status> calls=<n> [<as> <addr>]
conv <target_as> <as> <addr>                ->  > conv <status> <as> <addr>
chains                                      ->  > chains ...   (the model's chain tables; driver only)
```
The harness appends ` | depth=… pages=… left=…` (measured, not modelled) to op/conv lines.
-/
namespace Driver.Sys
open Kdf.Model.Pgt Kdf.Model.Sys

structure MemCfg where
  seed : Nat := 0
  and0 : Nat := 0
  or0 : Nat := 0
  and1 : Nat := 0
  or1 : Nat := 0
  be : Bool := false
  ovr : List (Nat × Nat × Nat) := []
  bad : List (Nat × Nat × XStatus) := []       -- (as, page, status); null pages answer nodata

def mix (seed as a4 : Nat) : Nat :=
  let m := 2^64
  let z := (seed + 0x9E3779B97F4A7C15 * (a4 / 4 + 1) + as * 0xD1B54A32D192ED03) % m
  let z := ((z ^^^ (z / 2^30)) * 0xBF58476D1CE4E5B9) % m
  let z := ((z ^^^ (z / 2^27)) * 0x94D049BB133111EB) % m
  let z := z ^^^ (z / 2^31)
  z % 2^32

def cell (c : MemCfg) (as a4 : Nat) : Nat :=
  match c.ovr.find? (fun (s, a, _) => s = as ∧ a = a4) with
  | some (_, _, v) => v
  | none =>
    let h := mix c.seed as a4
    if (a4 / 4) % 2 = 0 then (h &&& c.and0) ||| c.or0 else (h &&& c.and1) ||| c.or1

/-- `do_read32`/`do_read64` over the harness's `get_page` -/
def pmOf (c : MemCfg) : Mem := fun as addr size =>
  if as ≥ 3 then .error .nodata
  else match c.bad.find? (fun (s, p, _) => s = as ∧ p = addr / 4096 * 4096) with
  | some (_, _, st) => .error st
  | none =>
    if size = 4 then
      if addr % 4 ≠ 0 then .error .unaligned else .ok (cell c as addr)
    else if size = 8 then
      if addr % 8 ≠ 0 then .error .unaligned
      else
        let a := cell c as addr; let b := cell c as (addr + 4)
        .ok (if c.be then a * 2^32 + b else b * 2^32 + a)
    else .error .notimpl

def fmtOf : String → PteFormat
  | "none" => .none | "pfn32" => .pfn32 | "pfn64" => .pfn64 | "aarch64" => .aarch64
  | "aarch64_lpa" => .aarch64Lpa | "aarch64_lpa2" => .aarch64Lpa2 | "arm" => .arm | "ia32" => .ia32
  | "ia32_pae" => .ia32Pae | "ppc64_linux_rpn30" => .ppc64LinuxRpn30 | "riscv32" => .riscv32
  | "riscv64" => .riscv64 | "s390x" => .s390x | _ => .x86_64

def showStatus : XStatus → String
  | .ok => "ok" | .notimpl => "notimpl" | .notpresent => "notpresent" | .invalid => "invalid"
  | .nomem => "nomem" | .nodata => "nodata" | .nometh => "nometh" | .unaligned => "unaligned"

def statusOf : String → XStatus
  | "ok" => .ok | "notimpl" => .notimpl | "notpresent" => .notpresent | "invalid" => .invalid
  | "nomem" => .nomem | "nodata" => .nodata | _ => .nometh

def showAs (a : Nat) : String := if a = 3 then "-1" else toString a
def asOf (s : String) : Nat := if s = "-1" then 3 else s.toNat!

def nums (s : String) (sep : String) : List Nat :=
  (s.splitOn sep).filter (· ≠ "") |>.map String.toNat!

def intOf (s : String) : Int :=
  if s.startsWith "-" then - ((s.drop 1).toString.toNat! : Int) else (s.toNat! : Int)

structure St where
  mem : MemCfg := {}
  sys : Sys := ⟨List.replicate 5 none, List.replicate 16 .nometh⟩
  rcaps : Nat := 0
  nosys : Bool := false

def cfgOf (s : St) : Cfg := ⟨if s.nosys then none else some s.sys, s.rcaps, pmOf s.mem⟩

def setMeth (s : St) (slot : String) (m : Meth) : St :=
  { s with sys := { s.sys with meths := s.sys.meths.set slot.toNat! m } }

def showMap (m : Kdf.Model.Map.Map) : String :=
  ",".intercalate (m.map fun r => s!"{r.endoff}:{r.meth}")

def showChains : String :=
  let one (n : String) (c : Chain) :=
    n ++ "=" ++ "/".intercalate (c.alts.map fun alt => "+".intercalate (alt.map toString))
  " ".intercalate [one "kv2phys" .kv2phys, one "kphys2machphys" .kphys2machphys,
                   one "kphys2direct" .kphys2direct, one "kphys2any" .kphys2any,
                   one "machphys2direct" .machphys2direct,
                   "expect=" ++ ",".intercalate ((List.range 5).map fun i => toString (mapExpectAs i)),
                   s!"max_inflight={MAX_INFLIGHT}"]

partial def loop (h : IO.FS.Stream) (s : St) : IO Unit := do
  let line ← h.getLine
  if line.isEmpty then return ()
  let ws := (line.trimAscii.toString.splitOn " ").filter (· ≠ "")
  match ws with
  | ["mem", seed, a0, o0, a1, o1, be] =>
    loop h { s with mem := { s.mem with seed := seed.toNat!, and0 := a0.toNat!, or0 := o0.toNat!,
                                        and1 := a1.toNat!, or1 := o1.toNat!, be := be == "1" } }
  | ["ovr", as, a4, v] => loop h { s with mem := { s.mem with ovr := (as.toNat!, a4.toNat!, v.toNat!) :: s.mem.ovr } }
  | ["bad", as, pg, st] => loop h { s with mem := { s.mem with bad := (as.toNat!, pg.toNat!, statusOf st) :: s.mem.bad } }
  | ["null", as, pg] => loop h { s with mem := { s.mem with bad := (as.toNat!, pg.toNat!, .nodata) :: s.mem.bad } }
  | ["clr"] => loop h { s with mem := { s.mem with ovr := [], bad := [] } }
  | ["newsys"] => loop h { s with sys := ⟨List.replicate 5 none, List.replicate 16 .nometh⟩, nosys := false }
  | ["rcaps", m] => loop h { s with rcaps := m.toNat! }
  | ["nosys", b] => loop h { s with nosys := b == "1" }
  | ["meth", slot, "pgt", fmt, t, ras, raddr, mask, fields] =>
    loop h (setMeth s slot (.pgt (asOf t) ⟨raddr.toNat!, asOf ras⟩ mask.toNat! ⟨fmtOf fmt, nums fields ","⟩))
  | ["meth", slot, "linear", t, off] => loop h (setMeth s slot (.linear (asOf t) off.toNat!))
  | ["meth", slot, "lookup", t, endoff, tbl] =>
    let es := (tbl.splitOn ",").filter (· ≠ "") |>.map fun e =>
      match e.splitOn ":" with | [o, d] => (o.toNat!, d.toNat!) | _ => (0, 0)
    loop h (setMeth s slot (.lookup (asOf t) endoff.toNat! es))
  | ["meth", slot, "lookup", t, endoff] => loop h (setMeth s slot (.lookup (asOf t) endoff.toNat! []))
  | ["meth", slot, "memarr", t, bas, baddr, shift, elemsz, valsz] =>
    loop h (setMeth s slot (.memarr (asOf t) ⟨baddr.toNat!, asOf bas⟩ shift.toNat! elemsz.toNat! valsz.toNat!))
  | ["meth", slot, "nometh"] => loop h (setMeth s slot .nometh)
  | ["map", idx, "none"] =>
    IO.println s!"> map {idx} none"
    loop h { s with sys := { s.sys with maps := s.sys.maps.set idx.toNat! none } }
  | ["map", idx, rs] =>
    let m : Kdf.Model.Map.Map := (rs.splitOn ",").filter (· ≠ "") |>.map fun e =>
      match e.splitOn ":" with | [eo, me] => ⟨eo.toNat!, intOf me⟩ | _ => ⟨0, -1⟩
    IO.println s!"> map {idx} {showMap m}"
    loop h { s with sys := { s.sys with maps := s.sys.maps.set idx.toNat! (some m) } }
  | ["op", caps, as, addr, cbst] =>
    let r := opTop (cfgOf s) caps.toNat! ⟨addr.toNat!, asOf as⟩
    match r with
    | .call fa => IO.println s!"> op {showStatus (statusOf cbst)} calls=1 {showAs fa.as} {fa.addr}"
    | .fail e => IO.println s!"> op {showStatus e} calls=0"
    | .oob => IO.println "> op OOB"
    loop h s
  | ["conv", tas, as, addr] =>
    match conv (cfgOf s) (asOf tas) ⟨addr.toNat!, asOf as⟩ with
    | some (st, fa) => IO.println s!"> conv {showStatus st} {showAs fa.as} {fa.addr}"
    | none => IO.println "> conv OOB"
    loop h s
  | ["chains"] => IO.println ("> chains " ++ showChains); loop h s
  | _ => IO.println "> bad-op"; loop h s

def run (h : IO.FS.Stream) : IO Unit := loop h {}
end Driver.Sys
