import Kdf.Model.Sys
import Kdf.Model.RCache
import Kdf.Model.SysMsg
/-! Line protocol for stream `sys` (C09).  See harness/s_sys.c for the twin.

```
mem <seed> <and0> <or0> <and1> <or1> <be>   memory function parameters (32-bit cells)
ovr <as> <addr4> <val32>                    override one cell
bad <as> <page> <status>                    get_page fails for that 4 KiB page
null <as> <page>                            get_page succeeds without data (ptr NULL)
clr                                         drop overrides and bad pages
newsys                                      fresh system (all maps NULL, all methods NOMETH)
rcaps <mask>                                answer of the read_caps callback
nosys <0|1>                                 pass a NULL system
meth <slot> nometh | linear <t> <off> | pgt <fmt> <t> <root_as> <root_addr> <pte_mask> <f0,f1,..>
          | lookup <t> <endoff> [<o:d,...>] | memarr <t> <base_as> <base_addr> <shift> <elemsz> <valsz>
          | custom <t> <mask> <arm-if-(addr&mask)!=0> <arm-else>      arm: f:<as>:<off> (callback finishes the translation,
                                                                      remain=0) | s:<as>:<off> (one linear level left) | e:<status>
map <idx> none | <endoff:meth,...>          ->  > map <idx> none | <endoff:meth,...>
op <caps> <as> <addr> <cbstatus>            ->  > op <status> calls=<n> [<as> <addr>]
conv <target_as> <as> <addr>                ->  > conv <status> <as> <addr>
chains                                      ->  > chains ...   (the model's chain tables; driver only)
newctx                                      ->  > newctx lost=<n>   fresh translation context (cold read cache); so do
                                            mem/ovr/bad/null/clr/newsys (silently).  <n> = buffers the get-page callback delivered to
                                            the contexts destroyed since the last `newctx` for which put_page was never called
                                            (model: 0, `read_gives_back` + cleanup_cache)
reent off | <as> <pfn:addr,...>             re-entrant get-page callback: before it delivers page <pfn> (of any address space)
                                            it reads the 64-bit object at <as>:<addr> through the same context
reentsys <0|1>                              the callback's own read may use the translation system (the object's address space need
                                            not be directly readable); such reads are outside the cache model (`rd ?`)
rd <as> <addr>                              ->  > rd <status> [<value>] gp=<callbacks started> nest=<deepest nesting> got=<buffers delivered>
                                                  put=<put_page calls> mru=<slot order> slots=<as:addr:size:ptr:filling;...>     one 64-bit read through the context
                                                  (model: Kdf.Model.RCache = get_cache_buf of ctx.c)
```
While a `reent` table is in force `op`/`conv` are outside the model of `addrxlat_op` (its memory is a pure function): the
driver answers `?` and forgets the cache state (`rd` then answers UNSYNC until the next fresh context).
The harness appends ` | depth=… pages=… left=…` (measured, not modelled) to op/conv lines.
-/
namespace Driver.Sys
open Kdf.Model.Pgt Kdf.Model.Sys

structure MemCfg where
  seed : Nat := 0
  and0 : Nat := 0
  or0 : Nat := 0
  and1 : Nat := 0
  or1 : Nat := 0
  be : Bool := false
  ovr : List (Nat × Nat × Nat) := []
  bad : List (Nat × Nat × XStatus × Bool) := []   -- (as, page, status, null?); null pages (OK without data) answer nodata

def mix (seed as a4 : Nat) : Nat :=
  let m := 2^64
  let z := (seed + 0x9E3779B97F4A7C15 * (a4 / 4 + 1) + as * 0xD1B54A32D192ED03) % m
  let z := ((z ^^^ (z / 2^30)) * 0xBF58476D1CE4E5B9) % m
  let z := ((z ^^^ (z / 2^27)) * 0x94D049BB133111EB) % m
  let z := z ^^^ (z / 2^31)
  z % 2^32

def cell (c : MemCfg) (as a4 : Nat) : Nat :=
  match c.ovr.find? (fun (s, a, _) => s = as ∧ a = a4) with
  | some (_, _, v) => v
  | none =>
    let h := mix c.seed as a4
    if (a4 / 4) % 2 = 0 then (h &&& c.and0) ||| c.or0 else (h &&& c.and1) ||| c.or1

/-- `do_read32`/`do_read64` over the harness's `get_page` -/
def pmOf (c : MemCfg) : Mem := fun as addr size =>
  if as ≥ 3 then .error .nodata
  else match c.bad.find? (fun (s, p, _, _) => s = as ∧ p = addr / 4096 * 4096) with
  | some (_, _, st, _) => .error st
  | none =>
    if size = 4 then
      if addr % 4 ≠ 0 then .error .unaligned else .ok (cell c as addr)
    else if size = 8 then
      if addr % 8 ≠ 0 then .error .unaligned
      else
        let a := cell c as addr; let b := cell c as (addr + 4)
        .ok (if c.be then a * 2^32 + b else b * 2^32 + a)
    else .error .notimpl

def fmtOf : String → PteFormat
  | "none" => .none | "pfn32" => .pfn32 | "pfn64" => .pfn64 | "aarch64" => .aarch64
  | "aarch64_lpa" => .aarch64Lpa | "aarch64_lpa2" => .aarch64Lpa2 | "arm" => .arm | "ia32" => .ia32
  | "ia32_pae" => .ia32Pae | "ppc64_linux_rpn30" => .ppc64LinuxRpn30 | "riscv32" => .riscv32
  | "riscv64" => .riscv64 | "s390x" => .s390x | _ => .x86_64

def showStatus : XStatus → String
  | .ok => "ok" | .notimpl => "notimpl" | .notpresent => "notpresent" | .invalid => "invalid"
  | .nomem => "nomem" | .nodata => "nodata" | .nometh => "nometh" | .unaligned => "unaligned"

def statusOf : String → XStatus
  | "ok" => .ok | "notimpl" => .notimpl | "notpresent" => .notpresent | "invalid" => .invalid
  | "nomem" => .nomem | "nodata" => .nodata | _ => .nometh

def showAs (a : Nat) : String := if a = 3 then "-1" else toString a
def asOf (s : String) : Nat := if s = "-1" then 3 else s.toNat!

def nums (s : String) (sep : String) : List Nat :=
  (s.splitOn sep).filter (· ≠ "") |>.map String.toNat!

def intOf (s : String) : Int :=
  if s.startsWith "-" then - ((s.drop 1).toString.toNat! : Int) else (s.toNat! : Int)

structure St where
  mem : MemCfg := {}
  sys : Sys := ⟨List.replicate 5 none, List.replicate 16 .nometh⟩
  rcaps : Nat := 0
  nosys : Bool := false
  cache : Option Kdf.Model.RCache.RCache := some Kdf.Model.RCache.init    -- `none`: not tracked (after op/conv)
  reentAs : Nat := 0
  reent : List (Nat × Nat) := []                                           -- (pfn, address read first)
  reentSys : Bool := false

/-- the harness's get-page callback as the cache model sees it -/
def cbOf (s : St) : Kdf.Model.RCache.Cb :=
  { readCaps := s.rcaps
    pre := fun a =>
      if a.as ≥ 3 then none
      else match s.reent.find? (fun (p, _) => p = a.addr / 4096) with
        | some (_, e) => some ⟨e, s.reentAs⟩
        | none => none
    res := fun a =>
      if a.as ≥ 3 then .fail .nodata
      else match s.mem.bad.find? (fun (x, p, _, _) => x = a.as ∧ p = a.addr / 4096 * 4096) with
        | some (_, _, _, true) => .noptr
        | some (_, _, st, false) => .fail st
        | none => .data }

def armOf (w : String) : CustomArm :=
  match w.splitOn ":" with
  | ["f", as, off] => .finish (if as = "-1" then 3 else as.toNat!) off.toNat!
  | ["s", as, off] => .step (if as = "-1" then 3 else as.toNat!) off.toNat!
  | ["e", st] => .fail (statusOf st)
  | _ => .fail .nometh

def showSlots (c : Kdf.Model.RCache.RCache) : String :=
  ";".intercalate (c.slots.map fun sl => s!"{showAs sl.addr.as}:{sl.addr.addr}:{sl.size}:{if sl.ptr then 1 else 0}:{if sl.filling then 1 else 0}")

def cfgOf (s : St) : Cfg := ⟨if s.nosys then none else some s.sys, s.rcaps, pmOf s.mem⟩

def setMeth (s : St) (slot : String) (m : Meth) : St :=
  { s with sys := { s.sys with meths := s.sys.meths.set slot.toNat! m } }

def showMap (m : Kdf.Model.Map.Map) : String :=
  ",".intercalate (m.map fun r => s!"{r.endoff}:{r.meth}")

def showChains : String :=
  let one (n : String) (c : Chain) :=
    n ++ "=" ++ "/".intercalate (c.alts.map fun alt => "+".intercalate (alt.map toString))
  " ".intercalate [one "kv2phys" .kv2phys, one "kphys2machphys" .kphys2machphys,
                   one "kphys2direct" .kphys2direct, one "kphys2any" .kphys2any,
                   one "machphys2direct" .machphys2direct,
                   "expect=" ++ ",".intercalate ((List.range 5).map fun i => toString (mapExpectAs i)),
                   s!"max_inflight={MAX_INFLIGHT}",
                   s!"read_cache_slots={Kdf.Model.RCache.READ_CACHE_SLOTS}", "filling_mark=1"]

/-- `op` / `conv` through the model of `addrxlat_op` -/
def opLine (s : St) (ws : List String) : String :=
  match ws with
  | ["op", caps, as, addr, cbst] =>
    match opTop (cfgOf s) caps.toNat! ⟨addr.toNat!, asOf as⟩ with
    | .call fa => s!"> op {showStatus (statusOf cbst)} calls=1 {showAs fa.as} {fa.addr}"
    | .fail e => s!"> op {showStatus e} calls=0"
    | .oob => "> op OOB"
  | ["conv", tas, as, addr] =>
    match conv (cfgOf s) (asOf tas) ⟨addr.toNat!, asOf as⟩ with
    | some (st, fa) => s!"> conv {showStatus st} {showAs fa.as} {fa.addr}"
    | none => "> conv OOB"
  | _ => "> bad-op"

partial def loop (h : IO.FS.Stream) (s : St) : IO Unit := do
  let line ← h.getLine
  if line.isEmpty then return ()
  let ws := (line.trimAscii.toString.splitOn " ").filter (· ≠ "")
  match ws with
  | ["mem", seed, a0, o0, a1, o1, be] =>
    loop h { s with cache := some Kdf.Model.RCache.init,
                    mem := { s.mem with seed := seed.toNat!, and0 := a0.toNat!, or0 := o0.toNat!,
                                        and1 := a1.toNat!, or1 := o1.toNat!, be := be == "1" } }
  | ["ovr", as, a4, v] =>
    loop h { s with cache := some Kdf.Model.RCache.init, mem := { s.mem with ovr := (as.toNat!, a4.toNat!, v.toNat!) :: s.mem.ovr } }
  | ["bad", as, pg, st] =>
    loop h { s with cache := some Kdf.Model.RCache.init,
                    mem := { s.mem with bad := (as.toNat!, pg.toNat!, statusOf st, false) :: s.mem.bad } }
  | ["null", as, pg] =>
    loop h { s with cache := some Kdf.Model.RCache.init,
                    mem := { s.mem with bad := (as.toNat!, pg.toNat!, .nodata, true) :: s.mem.bad } }
  | ["reentsys", b] => loop h { s with reentSys := b == "1" }
  | ["clr"] => loop h { s with cache := some Kdf.Model.RCache.init, reent := [], reentSys := false, mem := { s.mem with ovr := [], bad := [] } }
  | ["newsys"] =>
    loop h { s with cache := some Kdf.Model.RCache.init, sys := ⟨List.replicate 5 none, List.replicate 16 .nometh⟩, nosys := false }
  | ["newctx"] => IO.println "> newctx lost=0"; loop h { s with cache := some Kdf.Model.RCache.init }
  | ["reent", "off"] => loop h { s with reent := [] }
  | ["reent", as, tbl] =>
    let es := (tbl.splitOn ",").filter (· ≠ "") |>.map fun e =>
      match e.splitOn ":" with | [p, a] => (p.toNat!, a.toNat!) | _ => (0, 0)
    loop h { s with reentAs := as.toNat!, reent := es }
  | ["rd", as, addr] =>
    let a : FullAddr := ⟨addr.toNat!, asOf as⟩
    if s.reentSys && !s.reent.isEmpty && !Kdf.Model.RCache.capsHas s.rcaps s.reentAs then
      IO.println "> rd ?"                    -- the callback's read goes through addrxlat_op: outside the cache model
      loop h { s with cache := none }
    else
    match s.cache with
    | none => IO.println "> rd UNSYNC"; loop h s
    | some c =>
      if !Kdf.Model.RCache.capsHas s.rcaps a.as then
        -- `read64` goes through `internal_op` without a translation system
        IO.println s!"> rd nometh gp=0 nest=0 got=0 put=0 mru={",".intercalate (c.order.map toString)} slots={showSlots c}"
        loop h s
      else
        let o := Kdf.Model.RCache.read (cbOf s) c a
        let v := match o.res with
          | .ok _ => (match pmOf s.mem a.as a.addr 8 with | .ok v => s!" {v}" | .error _ => " ?")
          | .error _ => ""
        IO.println s!"> rd {showStatus o.status}{v} gp={o.calls} nest={o.depth} got={o.got} put={o.put} mru={",".intercalate (o.cache.order.map toString)} slots={showSlots o.cache}"
        loop h { s with cache := some o.cache }
  | ["meth", slot, "custom", t, mask, hit, miss] =>
    loop h (setMeth s slot (.custom (asOf t) mask.toNat! (armOf hit) (armOf miss)))
  | ["rcaps", m] => loop h { s with rcaps := m.toNat! }
  | ["nosys", b] => loop h { s with nosys := b == "1" }
  | ["meth", slot, "pgt", fmt, t, ras, raddr, mask, fields] =>
    loop h (setMeth s slot (.pgt (asOf t) ⟨raddr.toNat!, asOf ras⟩ mask.toNat! ⟨fmtOf fmt, nums fields ","⟩))
  | ["meth", slot, "linear", t, off] => loop h (setMeth s slot (.linear (asOf t) off.toNat!))
  | ["meth", slot, "lookup", t, endoff, tbl] =>
    let es := (tbl.splitOn ",").filter (· ≠ "") |>.map fun e =>
      match e.splitOn ":" with | [o, d] => (o.toNat!, d.toNat!) | _ => (0, 0)
    loop h (setMeth s slot (.lookup (asOf t) endoff.toNat! es))
  | ["meth", slot, "lookup", t, endoff] => loop h (setMeth s slot (.lookup (asOf t) endoff.toNat! []))
  | ["meth", slot, "memarr", t, bas, baddr, shift, elemsz, valsz] =>
    loop h (setMeth s slot (.memarr (asOf t) ⟨baddr.toNat!, asOf bas⟩ shift.toNat! elemsz.toNat! valsz.toNat!))
  | ["meth", slot, "nometh"] => loop h (setMeth s slot .nometh)
  | ["map", idx, "none"] =>
    IO.println s!"> map {idx} none"
    loop h { s with sys := { s.sys with maps := s.sys.maps.set idx.toNat! none } }
  | ["map", idx, rs] =>
    let m : Kdf.Model.Map.Map := (rs.splitOn ",").filter (· ≠ "") |>.map fun e =>
      match e.splitOn ":" with | [eo, me] => ⟨eo.toNat!, intOf me⟩ | _ => ⟨0, -1⟩
    IO.println s!"> map {idx} {showMap m}"
    loop h { s with sys := { s.sys with maps := s.sys.maps.set idx.toNat! (some m) } }
  | ["op", _, _, _, _] | ["conv", _, _, _] =>
    if !s.reent.isEmpty then IO.println s!"> {ws.headD ""} ?" else IO.println (opLine s ws)
    loop h { s with cache := none }
  | ["econv", tas, as, addr] =>
    -- C16: `conv` plus what the call leaves in the error string (Kdf.Model.SysMsg)
    if !s.reent.isEmpty then IO.println "> econv ?" else
      (match Kdf.Model.SysMsg.convM (cfgOf s) (asOf tas) ⟨addr.toNat!, asOf as⟩ with
       | some (st, fa, m) => IO.println s!"> econv {showStatus st} {showAs fa.as} {fa.addr} {if m then "set" else "empty"}"
       | none => IO.println "> econv OOB")
    loop h { s with cache := none }
  | ["chains"] => IO.println ("> chains " ++ showChains); loop h s
  | _ => IO.println "> bad-op"; loop h s

def run (h : IO.FS.Stream) : IO Unit := loop h {}
end Driver.Sys
