import Kdf.Model.Pfn
/-! Line protocol for stream `pfn` (C07): page-map queries computed by the model
from the layout of the dump.

```
dd                                          reset: diskdump layout
ddfile <start_pfn> <end_pfn> <maxbit> <bitmap2 hex> <descoff>   one (split) file; maxbit = number of bits of the bitmap
ddmem <maxbit> <bitmap1 hex>
msb0 <0|1>                                  bit order of the following ddfile/ddmem bitmaps
elf <shift>                                 reset: ELF layout
seg <phys> <filesz> <memsz>
bits file|mem <first> <last>   ->  > bits ok <hex>
fset file|mem <idx>            ->  > fset ok <idx> | > fset nodata 0
fclr file|mem <idx>            ->  > fclr ok <idx>
maps <pfn> <first> <last> <start:end:regionpfn:cnt>...   split-file maps in any order: sorted window ends, find-set / find-clear
                                                          at pfn, bits of [first,last]
```
-/
namespace Driver.Pfn
open Kdf.Model.Pfn

structure St where
  isElf : Bool := false
  msb0 : Bool := false
  files : List FileMap := []
  mem : List FileMap := []
  shift : Nat := 12
  segs : List (Nat × Nat × Nat) := []

def hexVal (c : Char) : Nat :=
  if c.isDigit then c.toNat - '0'.toNat else c.toNat - 'a'.toNat + 10
def unhex : List Char → List Nat
  | a :: b :: t => (hexVal a * 16 + hexVal b) :: unhex t
  | _ => []
def hexDigit (n : Nat) : Char := if n < 10 then Char.ofNat (48 + n) else Char.ofNat (87 + n)
def toHex (l : List Nat) : String := String.ofList (l.flatMap fun b => [hexDigit (b / 16), hexDigit (b % 16)])

def sortMaps (l : List FileMap) : List FileMap :=
  l.mergeSort (fun a b => a.endPfn ≤ b.endPfn)

def segsOf (s : St) (isMem : Bool) : List Seg :=
  let l := s.segs.map fun (p, f, m) => (⟨p, if isMem then m else f⟩ : Seg)
  l.mergeSort (fun a b => a.phys ≤ b.phys)

def answerBits (s : St) (isMem : Bool) (first last : Nat) : String :=
  let r := if s.isElf then elfGetBits (segsOf s isMem) s.shift first last
           else getMapBits (if isMem then s.mem else sortMaps s.files) first last
  match r with
  | some b => s!"> bits ok {toHex b}"
  | none => "> bits OOB"

def elfFindClear (segs : List Seg) (shift idx : Nat) : Nat :=
  match findClosest segs (idx * 2^shift) (2^64 - 1) with
  | none => idx
  | some i => (segs.drop i).foldl (fun cur sg =>
      if cur ≥ sg.phys / 2^shift ∧ sg.size ≠ 0 ∧ (sg.phys + sg.size - 1) / 2^shift ≥ cur
      then (sg.phys + sg.size - 1) / 2^shift + 1 else cur) idx

partial def loop (h : IO.FS.Stream) (s : St) : IO Unit := do
  let line ← h.getLine
  if line.isEmpty then return ()
  let ws := (line.trimAscii.toString.splitOn " ").filter (· ≠ "")
  match ws with
  | ["dd"] => loop h {}
  | ["msb0", b] => loop h { s with msb0 := b == "1" }
  | ["ddfile", sp, ep, maxbit, hex, descoff] =>
    let bm := unhex hex.toList
    let e := min ep.toNat! maxbit.toNat!
    let rs := regionsFromBitmap bm s.msb0 sp.toNat! e descoff.toNat! 24
    loop h { s with files := s.files ++ [⟨rs, sp.toNat!, ep.toNat!⟩] }
  | ["ddmem", maxbit, hex] =>
    let bm := unhex hex.toList
    let rs := regionsFromBitmap bm s.msb0 0 maxbit.toNat! 0 0
    loop h { s with mem := [⟨rs, 0, 2^64 - 1⟩] }
  | ["elf", sh] => loop h { isElf := true, shift := sh.toNat! }
  | ["seg", p, f, m] => loop h { s with segs := s.segs ++ [(p.toNat!, f.toNat!, m.toNat!)] }
  | ["bits", w, first, last] =>
    IO.println (answerBits s (w == "mem") first.toNat! last.toNat!); loop h s
  | ["fset", w, idx] =>
    let r := if s.isElf then elfFindSet (segsOf s (w == "mem")) s.shift idx.toNat!
             else findMapped (if w == "mem" then s.mem else sortMaps s.files) idx.toNat!
    match r with
    | some i => IO.println s!"> fset ok {i}"
    | none => IO.println "> fset nodata 0"
    loop h s
  | ["fclr", w, idx] =>
    let r := if s.isElf then elfFindClear (segsOf s (w == "mem")) s.shift idx.toNat!
             else findUnmapped (if w == "mem" then s.mem else sortMaps s.files) 100000 idx.toNat!
    IO.println s!"> fclr ok {r}"
    loop h s
  | ["scan", fn, _, hex, pfn] =>
    let bm := unhex hex.toList
    let r := match fn with
      | "cl" => skipClearLsb0 bm bm.length pfn.toNat!
      | "cm" => skipClearMsb0 bm bm.length pfn.toNat!
      | "sl" => skipSetLsb0 bm bm.length pfn.toNat!
      | _ => skipSetMsb0 bm bm.length pfn.toNat!
    IO.println s!"> scan {r}"; loop h s
  | ["regions", msb, st, en, off, esz, hex] =>
    let rs := regionsFromBitmap (unhex hex.toList) (msb == "1") st.toNat! en.toNat! off.toNat! esz.toNat!
    IO.println ("> regions" ++ String.join (rs.map fun r => s!" {r.pfn}:{r.cnt}:{r.pos}")); loop h s
  | "maps" :: q :: first :: last :: rest =>
    let ms : List FileMap := rest.filterMap fun t =>
      match (t.splitOn ":").map String.toNat! with
      | [a, b, c, d] => some ⟨if d = 0 then [] else [⟨c, d, 0⟩], a, b⟩
      | _ => none
    let sm := sortMaps ms
    let setS := match findMapped sm q.toNat! with
      | some i => s!"{i}"
      | none => "-"
    let bitsS := match getMapBits sm first.toNat! last.toNat! with
      | some b => toHex b
      | none => "OOB"
    IO.println ("> maps" ++ String.join (sm.map fun m => s!" {m.endPfn}") ++ s!" set={setS} clr={findUnmapped sm 100000 q.toNat!} bits={bitsS}")
    loop h s
  | _ => loop h s      -- lines meant for the harness only

def run (h : IO.FS.Stream) : IO Unit := loop h {}
end Driver.Pfn
