import Kdf.Model.Res
import Kdf.Model.BlobPin
/-! Line protocol for stream `res` (C15).  Only lines starting with `M ` are
for the model; everything else (the API operations the harness executes) is
ignored.

```
M cfg pgsz=.. mmapsz=.. filesz=.. fce=.. pio=.. embed=.. ps=.. maxpfn=.. zeroexcl=0|1 lzo=0|1 snappy=0|1 zstd=0|1
M pgclr                                     forget all page descriptors
M pg <pfn> <pdpos|-> <offset> <size> <flags> <dec>
M call <pol> read <as> <addr> <len> | <oracle>      -> > T <events>| read <status> <n>
M call <pol> getpage <as> <addr> | <oracle>         -> > T <events>| getpage <status>
M call <pol> putpage <as> <addr> |                  -> > T <events>| drop
M call <pol> fb <pos> <sz> | <oracle>               -> > T <events>| fb ok entry|bounce   (fcache_get_fb + fcache_put)
M axinit <cbsz> s=<slots> o=<mru order>             read cache of the dump's translation context as the harness printed it;
                                                    callback stack = [0] (the library's own record)
M axcall <pol> axread <as> <addr> | <oracle>          -> > T <events>| axread <status> s=.. o=..   (do_read64 -> get_cache_buf)
M axcall <pol> addcb <id> | a1|a0                     -> > T <events>| addcb ok|nomem s=.. o=..
M axcall <pol> delcb <id> |                           -> > T <events>| delcb s=.. o=..
M axcall <pol> freectx |                              -> > T <events>| free     (kdump_free: addrxlat_ctx_del_cb of record 0, which
                                                    was allocated before tracing began: no F event for it)
M checkreset                                        new session: empty ledger
M check <events>                                    -> > L ok <held> | > L VIOLATION <index> <event>   (ledger carried on)
```
oracle items: `h<addr>` valid entry, `hF` valid entry with MAP_FAILED, `s<addr>`
entry to be filled, `b` no entry, `io1`/`io0` pread, `m<addr>`/`mF` mmap,
`a1`/`a0` malloc.  Events are printed exactly like harness/s_res.c prints them
(without the `@` annotations).  `M check` runs the ledger semantics over a
trace of the implementation. -/
namespace Driver.Res
open Kdf.Model.Res

def cname : CacheId → String
  | .pc => "pc" | .fc => "fc" | .fb => "fb"

def okS (b : Bool) : String := if b then "ok" else "fail"

def showEv : Ev → String
  | .acq c k => s!"A:{cname c}:{k}"
  | .busy c k => s!"B:{cname c}:{k}"
  | .ins c k => s!"I:{cname c}:{k}"
  | .discard c k => s!"D:{cname c}:{k}"
  | .put c k => s!"R:{cname c}:{k}"
  | .pread off ok => s!"p:{off}:{okS ok}"
  | .mmap off ok => s!"m:{off}:{okS ok}"
  | .malloc _ sz ok => s!"M:{sz}:{okS ok}"
  | .free _ sz => s!"F:{sz}"

def showEvs (es : List Ev) : String := String.join (es.map (fun e => showEv e ++ " "))

def showStatus : Status → String
  | .ok => "ok" | .system => "system" | .notimpl => "notimpl" | .nodata => "nodata"
  | .corrupt => "corrupt" | .invalid => "invalid" | .nokey => "nokey" | .eof => "eof"
  | .busy => "busy" | .addrxlat => "addrxlat" | .nomem => "nomem"

/-- `kdump2addrxlat` as harness/s_res.c names its result -/
def showXStatus : Status → String
  | .ok => "ok" | .nomem => "nomem" | .nodata => "nodata" | _ => "custom"

def parseCache : String → Option CacheId
  | "pc" => some .pc | "fc" => some .fc | "fb" => some .fb | _ => none

def parseOrc (t : String) : Option Ext :=
  if t = "b" then some .entBusy
  else if t = "hF" then some (.entHit none)
  else if t = "mF" then some (.map none)
  else if t = "io1" then some (.io true)
  else if t = "io0" then some (.io false)
  else if t = "a1" then some (.alloc true)
  else if t = "a0" then some (.alloc false)
  else if t.startsWith "h" then (t.drop 1).toNat?.map (fun a => .entHit (some a))
  else if t.startsWith "s" then (t.drop 1).toNat?.map .entMiss
  else if t.startsWith "m" then (t.drop 1).toNat?.map (fun a => .map (some a))
  else none

def parsePol : String → Policy
  | "never" => .never | "always" => .always | "tryonce" => .tryOnce | _ => .try_

/-- an event of the implementation's trace (memory blocks carry no tag there) -/
def parseEv (t : String) : Option Ev :=
  match t.splitOn ":" with
  | ["A", c, k] => (parseCache c).bind fun c => k.toNat?.map (.acq c)
  | ["B", c, k] => (parseCache c).bind fun c => k.toNat?.map (.busy c)
  | ["I", c, k] => (parseCache c).bind fun c => k.toNat?.map (.ins c)
  | ["D", c, k] => (parseCache c).bind fun c => k.toNat?.map (.discard c)
  | ["R", c, k] => (parseCache c).bind fun c => k.toNat?.map (.put c)
  | ["p", off, ok] => off.toNat?.map (fun o => .pread o (ok = "ok"))
  | ["m", off, ok] => off.toNat?.map (fun o => .mmap o (ok = "ok"))
  | ["M", sz, ok] => sz.toNat?.map (fun s => .malloc .data s (ok = "ok"))
  | ["F", sz] => sz.toNat?.map (.free .data)
  | _ => none

structure St where
  cfg : Cfg := ⟨4096, 4194304, 0, 32, 104, 2, 4096, 0, false, false, true, true⟩
  pages : List (Nat × PageInfo) := []
  led : List Res := []          -- ledger of the session checked by `M check`
  ax : AxCtx := ⟨rcInit 4, [0]⟩
  cbsz : Nat := 72

def lookup (s : St) (pfn : Nat) : PageInfo :=
  match s.pages.find? (fun p => p.1 = pfn) with
  | some (_, pi) => pi
  | none => ⟨none, 0, 0, 0, 0⟩

def kv (ws : List String) (k : String) (d : Nat) : Nat :=
  match ws.find? (fun w => w.startsWith (k ++ "=")) with
  | some w => ((w.drop (k.length + 1)).toNat?).getD d
  | none => d

def showSlot : Option Page → String
  | some q => s!"{q.1}:{q.2}"
  | none => "-"

def showRc (rc : RdCache) : String :=
  "s=" ++ String.intercalate "," (rc.slots.map showSlot) ++ " o=" ++ String.intercalate "," (rc.order.map toString)

def parseSlot (t : String) : Option Page :=
  match t.splitOn ":" with
  | [a, b] => (a.toNat?).bind fun a => b.toNat?.map fun b => (a, b)
  | _ => none

def showRes : Res → String
  | .pin c k => s!"pin:{cname c}:{k}"
  | .mem _ sz => s!"mem:{sz}"

/-- run the ledger over a trace; index of the first event that gives back
something that is not held -/
def checkTrace (es : List Ev) (L0 : List Res) : Except (Nat × Ev) (List Res) :=
  let rec go (i : Nat) (es : List Ev) (L : List Res) : Except (Nat × Ev) (List Res) :=
    match es with
    | [] => .ok L
    | e :: rest =>
      match applyEv L e with
      | some L' => go (i + 1) rest L'
      | none => .error (i, e)
  go 0 es L0

partial def loop (h : IO.FS.Stream) (s : St) : IO Unit := do
  let line ← h.getLine
  if line.isEmpty then return ()
  let ws := (line.trimAscii.toString.splitOn " ").filter (· ≠ "")
  match ws with
  | "M" :: "cfg" :: rest =>
    let c : Cfg := ⟨kv rest "pgsz" 4096, kv rest "mmapsz" 4194304, kv rest "filesz" 0, kv rest "fce" 32,
                   kv rest "pio" 104, kv rest "embed" 2, kv rest "ps" 4096, kv rest "maxpfn" 0,
                   kv rest "zeroexcl" 0 = 1, kv rest "lzo" 0 = 1, kv rest "snappy" 0 = 1, kv rest "zstd" 0 = 1⟩
    loop h { s with cfg := c }
  | ["M", "pgclr"] => loop h { s with pages := [] }
  | ["M", "pg", pfn, pdpos, off, size, flags, dec] =>
    let pi : PageInfo := ⟨pdpos.toNat?, off.toNat!, size.toNat!, flags.toNat!, dec.toNat!⟩
    loop h { s with pages := (pfn.toNat!, pi) :: s.pages }
  | "M" :: "call" :: pol :: rest =>
    let args := rest.takeWhile (· ≠ "|")
    let orcs := (rest.dropWhile (· ≠ "|")).drop 1
    let pol := parsePol pol
    match orcs.mapM parseOrc with
    | none => IO.println "> T | BAD-ORACLE"
    | some orc =>
      match args with
      | ["read", as, addr, len] =>
        let a := addr.toNat!; let n := len.toNat!
        let out := readLocked s.cfg (lookup s) as.toNat! n pol a n orc
        let left := if out.orc.isEmpty then "" else " ORACLE-LEFT"
        match out.res with
        | .ok (k, _) => IO.println s!"> T {showEvs out.evs}| read ok {k}{left}"
        | .err st =>
          let k := readDelivered s.cfg (lookup s) as.toNat! n pol a n orc
          IO.println s!"> T {showEvs out.evs}| read {showStatus st} {k}{left}"
        | .stuck => IO.println "> T | STUCK"
      | ["getpage", as, addr] =>
        let out := addrxlatGetPage s.cfg pol as.toNat! addr.toNat! (lookup s) orc
        let left := if out.orc.isEmpty then "" else " ORACLE-LEFT"
        match out.res with
        | .ok _ => IO.println s!"> T {showEvs out.evs}| getpage ok{left}"
        | .err st => IO.println s!"> T {showEvs out.evs}| getpage {showXStatus st}{left}"
        | .stuck => IO.println "> T | STUCK"
      | ["fb", pos, sz] =>
        let out := fcacheGetFb s.cfg pol 0 pos.toNat! sz.toNat! orc
        let left := if out.orc.isEmpty then "" else " ORACLE-LEFT"
        match out.res with
        | .ok (r, _) =>
          IO.println s!"> T {showEvs (out.evs ++ fcachePut r)}| fb ok {if r.isSome then "entry" else "bounce"}{left}"
        | .err st => IO.println s!"> T {showEvs out.evs}| fb {showStatus st}{left}"
        | .stuck => IO.println "> T | STUCK"
      | ["putpage", as, addr] =>
        IO.println s!"> T {showEvs (addrxlatPutPage s.cfg as.toNat! addr.toNat!)}| drop"
      | _ => IO.println "> T | BAD-CALL"
    loop h s
  | ["M", "axinit", cbsz, sl, od] =>
    let slots := ((sl.drop 2).toString.splitOn ",").map parseSlot
    let order := ((od.drop 2).toString.splitOn ",").filterMap (·.toNat?)
    loop h { s with ax := ⟨⟨slots, order⟩, [0]⟩, cbsz := cbsz.toNat! }
  | "M" :: "axcall" :: pol :: rest =>
    let args := rest.takeWhile (· ≠ "|")
    let orcs := (rest.dropWhile (· ≠ "|")).drop 1
    let pol := parsePol pol
    match orcs.mapM parseOrc with
    | none => IO.println "> T | BAD-ORACLE"; loop h s
    | some orc =>
      match args with
      | ["axread", as, addr] =>
        let r := getCacheBuf s.cfg pol s.ax.rc as.toNat! addr.toNat! (lookup s) orc
        let left := if r.1.orc.isEmpty then "" else " ORACLE-LEFT"
        match r.1.res with
        | .ok _ => IO.println s!"> T {showEvs r.1.evs}| axread ok {showRc r.2}{left}"
        | .err st => IO.println s!"> T {showEvs r.1.evs}| axread {showXStatus st} {showRc r.2}{left}"
        | .stuck => IO.println "> T | STUCK"
        loop h { s with ax := { s.ax with rc := r.2 } }
      | ["addcb", id] =>
        let r := ctxAddCb s.cbsz s.ax id.toNat! orc
        match r.1.res with
        | .ok _ => IO.println s!"> T {showEvs r.1.evs}| addcb ok {showRc r.2.rc}"
        | .err _ => IO.println s!"> T {showEvs r.1.evs}| addcb nomem {showRc r.2.rc}"
        | .stuck => IO.println "> T | STUCK"
        loop h { s with ax := r.2 }
      | ["delcb", id] =>
        let r := ctxDelCb s.cfg s.cbsz s.ax id.toNat!
        IO.println s!"> T {showEvs r.1}| delcb {showRc r.2.rc}"
        loop h { s with ax := r.2 }
      | ["freectx"] =>
        let r := ctxDelCb s.cfg s.cbsz s.ax 0
        IO.println s!"> T {showEvs r.1.dropLast}| free"
        loop h { s with ax := r.2 }
      | _ => IO.println "> T | BAD-CALL"; loop h s
  | ["M", "derived", raw, off, len] =>
    -- derived_attr_revalidate on a raw blob of <raw> bytes (`-`: the blob attribute has no value)
    let r := Kdf.Model.BlobPin.derivedRevalidate raw.toNat? off.toNat! len.toNat!
    IO.println s!"> D {r.1.name} {Kdf.Model.BlobPin.net r.2}"
    loop h s
  | ["M", "checkreset"] => loop h { s with led := [] }
  | "M" :: "check" :: evs =>
    match evs.mapM parseEv with
    | none => IO.println "> L BAD-EVENT"; loop h s
    | some es =>
      match checkTrace es s.led with
      | .ok L =>
        IO.println s!"> L ok {String.intercalate "," (L.map showRes)}"
        loop h { s with led := L }
      | .error (i, e) =>
        IO.println s!"> L VIOLATION {i} {showEv e}"
        loop h s
  | _ => loop h s

def run (h : IO.FS.Stream) : IO Unit := loop h {}
end Driver.Res
