import Kdf.Model.ErrFlow
/-! Line protocol for stream `flow` (C16, the error-message discipline).
```
blobreg <rd|wr> <set|cleared|short|absent> <key>              kdump_get_attr / kdump_set_attr on cpu.N.reg.*
xenver <attrSet 0|1> <status of the string read> <hex of its message|->   kdump_set_attr(addrxlat.ostype)
pgtroot <num name> <rootopt 0|1> <swapper st> <hex|-> <caps_kv 0|1> <rd st> <hex|-> <num st> <hex|->
                                                               addrxlat_sys_os_init, aarch64 / riscv64 Linux
arm <rootknown 0|1> <swapper st> <hex|-> <stext st> <hex|-> <caps 0|1> <rd st> <hex|-> <phys_base 0|1>
                                                               addrxlat_sys_os_init, arm Linux
vmci <sym|line> <noos|notable|dot|miss|cleared|found> <ostype>   kdump_vmcoreinfo_symbol / kdump_vmcoreinfo_line
alloc <size> <got 0|1>                                         kdump_set_attr(addrxlat.ostype) on an s390x dump whose os_info
                                                               claims a VMCOREINFO of <size> bytes; got = malloc succeeded
```
A part is given by its status name and the message it leaves (hex).  Output:
`> <status name> | <error string, "-" when empty>`.
-/
namespace Driver.Flow
open Kdf.Model.ErrFlow

def hexVal (c : Char) : Nat :=
  if c.isDigit then c.toNat - '0'.toNat else c.toNat - 'a'.toNat + 10
def unhex : List Char → List Char
  | a :: b :: t => Char.ofNat (hexVal a * 16 + hexVal b) :: unhex t
  | _ => []

def kNames : List String := ["ok", "system", "notimpl", "nodata", "corrupt", "invalid", "nokey", "eof", "busy", "addrxlat"]
def xNames : List String := ["ok", "notimpl", "notpresent", "invalid", "nomem", "nodata", "nometh"]

def customSt (s : String) : Int :=
  let n := (s.drop 6).toString.toNat!
  let m : Nat := if n = 0 then 4 else n
  Int.neg (Int.ofNat m)

def parseSt (names : List String) (s : String) : Int :=
  if s.startsWith "custom" then customSt s
  else match names.idxOf? s with
    | some i => Int.ofNat i
    | none => 99
def showSt (names : List String) (st : Int) : String :=
  if st < 0 then "custom" else names.getD st.toNat "UNDOCUMENTED"

def part (names : List String) (st hex : String) : Part :=
  let s := parseSt names st
  ⟨s, if s = 0 ∨ hex = "-" then [] else [String.ofList (unhex hex.toList)]⟩

def out (names : List String) (r : Res) : String :=
  s!"> {showSt names r.1} | {if r.2 = [] then "-" else render r.2}"

def blobOf : String → Blob
  | "set" => .present | "cleared" => .cleared | "short" => .short | _ => .absent

def lookOf : String → VLook
  | "noos" => .noOs | "notable" => .noTable | "dot" => .dot | "cleared" => .cleared | "found" => .found | _ => .miss

def b (s : String) : Bool := s == "1"

partial def loop (h : IO.FS.Stream) : IO Unit := do
  let line ← h.getLine
  if line.isEmpty then return ()
  let ws := (line.trimAscii.toString.splitOn " ").filter (· ≠ "")
  match ws with
  | ["blobreg", "rd", st, key] => IO.println (out kNames (getDerived (blobOf st) key []))
  | ["blobreg", "wr", st, key] => IO.println (out kNames (setDerived (blobOf st) key []))
  | ["xenver", a, st, hex] =>
    IO.println (out kNames (updateXenExtraVer (b a) Part.ok (part kNames st hex) Part.ok (clearError [])))
  | ["pgtroot", num, ro, s1, h1, caps, s2, h2, s3, h3] =>
    IO.println (out xNames (mapLinuxPgtroot (b ro) num (part xNames s1 h1) (b caps) (part xNames s2 h2) (part xNames s3 h3)
      Part.ok Part.ok (clearError [])))
  | ["arm", rk, s1, h1, s2, h2, caps, s3, h3, pb] =>
    IO.println (out xNames (mapLinuxArm (b rk) (part xNames s1 h1) (part xNames s2 h2) (b caps) (part xNames s3 h3) (b pb)
      Part.ok Part.ok (clearError [])))
  | ["vmci", kind, look, os] => IO.println (out kNames (vmcoreinfoLookup (kind == "sym") (lookOf look) os []))
  | ["alloc", size, got] =>
    IO.println (out kNames (s390OsInfoAlloc size.toNat! (b got) "Cannot allocate memory" Part.ok []))
  | _ => IO.println "> bad-op"
  loop h

def run (h : IO.FS.Stream) : IO Unit := loop h
end Driver.Flow
