import Kdf.Model.Derived
/-! Line protocol for stream `derived` (C14) — see harness/s_derived.c.

Extra lines understood only by the driver (ignored by the harness):
```
endian <0|1>                 byte order of the dump that `open` loads
regdef <name> <off> <len>    one derived attribute below cpu.0 (name = "pid" or "reg.<x>")
initblob <hex>               content of the PRSTATUS note of the dump
xenrec <size>                the next `open` loads a Xen domain dump: `initblob` is its
                             `.xen_prstatus` section, cut into records of <size> bytes, one
                             virtual CPU each; the blob attribute is cpu.<n>.XEN_PRSTATUS
```
`open <path>` starts a context with the registers declared since the previous
`open`/`new`; its PRSTATUS content is set by the first `setblob cpu.0.PRSTATUS`.
-/
namespace Driver.Derived
open Kdf.Model.Derived

def showStatus : Status → String
  | .ok => "ok" | .system => "system" | .notimpl => "notimpl" | .nodata => "nodata"
  | .corrupt => "corrupt" | .invalid => "invalid" | .nokey => "nokey"

def hexVal (c : Char) : Nat :=
  if c.isDigit then c.toNat - '0'.toNat else c.toNat - 'a'.toNat + 10

def unhexL : List Char → List Nat
  | a :: b :: t => (hexVal a * 16 + hexVal b) :: unhexL t
  | _ => []
def unhex (s : String) : List Nat := if s = "-" then [] else unhexL s.toList

def hexDigit (n : Nat) : Char := if n < 10 then Char.ofNat (48 + n) else Char.ofNat (87 + n)
def hex (bs : List Nat) : String :=
  if bs.isEmpty then "-" else String.ofList (bs.flatMap fun b => [hexDigit (b / 16), hexDigit (b % 16)])

structure St where
  ctx : Ctx := {}
  cpus : List Cpu := []
  blobKey : String := "PRSTATUS"
  pendBe : Bool := false
  pendXen : Nat := 0
  pendRegs : List RegDef := []
  pendBlob : List Nat := []

/-- "cpu.<n>.<name>" → (n, name) -/
def cpuKey (key : String) : Option (Nat × String) :=
  match key.splitOn "." with
  | "cpu" :: n :: rest => if n.isNat ∧ rest ≠ [] then some (n.toNat!, ".".intercalate rest) else none
  | _ => none

def regIndex (cs : List Cpu) (n : Nat) (name : String) : Option Nat :=
  match cs[n]? with
  | some c => c.regs.findIdx? (fun r => r.d.name == name)
  | none => none

def insertSorted (a : String) : List String → List String
  | [] => [a]
  | b :: t => if a ≤ b then a :: b :: t else b :: insertSorted a t
def sortStrings (l : List String) : List String := l.foldr insertSorted []

def treeOut (entries : List String) : String :=
  "> tree ok" ++ String.join ((sortStrings entries).map (" " ++ ·))

def outPage (o : Out Page) (p : Page) : String × Page :=
  match o with
  | .done st p' => ("> set " ++ showStatus st, p')
  | .ub => ("> UB", p)
  | .fuel => ("> FUEL", p)

def step (s : St) (ws : List String) : String × St :=
  match ws with
  | ["new"] => ("> new ok", { ctx := {}, cpus := [] })
  | ["endian", b] => ("", { s with pendBe := b == "1" })
  | ["initblob", h] => ("", { s with pendBlob := unhex h })
  | ["xenrec", n] => ("", { s with pendXen := n.toNat! })
  | ["regdef", n, o, l] => ("", { s with pendRegs := s.pendRegs ++ [⟨n, o.toNat!, l.toNat!⟩] })
  | ["open", _] =>
    if s.pendXen = 0 then
      ("> open ok", { ctx := {}, blobKey := "PRSTATUS",
                      cpus := [{ be := s.pendBe, blob := s.pendBlob, regs := s.pendRegs.map (fun d => { d := d }) }] })
    else
      ("> open ok", { ctx := {}, blobKey := "XEN_PRSTATUS",
                      cpus := xenCpus s.pendBe s.pendXen s.pendRegs s.pendBlob })
  | ["setnum", "arch.page_size", v] =>
    let (o, p) := outPage (setSize pageFuel s.ctx.page v.toNat!) s.ctx.page
    (o, { s with ctx := { s.ctx with page := p } })
  | ["setnum", "arch.page_shift", v] =>
    let (o, p) := outPage (setShift pageFuel s.ctx.page v.toNat!) s.ctx.page
    (o, { s with ctx := { s.ctx with page := p } })
  | ["clear", "arch.page_size"] => ("> clear ok", { s with ctx := { s.ctx with page := clearSize s.ctx.page } })
  | ["clear", "arch.page_shift"] => ("> clear ok", { s with ctx := { s.ctx with page := clearShift s.ctx.page } })
  | ["get", "arch.page_size"] =>
    (match s.ctx.page.size with | some v => s!"> get ok num:{v}" | none => "> get nodata -", s)
  | ["get", "arch.page_shift"] =>
    (match s.ctx.page.shift with | some v => s!"> get ok num:{v}" | none => "> get nodata -", s)
  | ["setstr", "linux.uts.release", h] =>
    ("> set ok", { s with ctx := { s.ctx with ver := setRelease s.ctx.ver (unhex h) } })
  | ["setstr", "addrxlat.ostype", _] => ("> set ok", s)
  | ["clear", "linux.uts.release"] =>
    ("> clear ok", { s with ctx := { s.ctx with ver := clearRelease s.ctx.ver } })
  | ["get", "linux.uts.release"] =>
    (match s.ctx.ver.release with | some r => "> get ok str:" ++ hex r | none => "> get nodata -", s)
  | ["get", "linux.version_code"] =>
    match getVer s.ctx.ver with
    | .done st (v, r) =>
      ((match r with | some n => s!"> get {showStatus st} num:{n}" | none => s!"> get {showStatus st} -"),
       { s with ctx := { s.ctx with ver := v } })
    | .ub => ("> UB", s)
    | .fuel => ("> FUEL", s)
  | ["setblob", "linux.vmcoreinfo.raw", h] =>
    match setRaw s.ctx (unhex h) with
    | .done st c => ("> set " ++ showStatus st, { s with ctx := c })
    | .ub => ("> UB", s)
    | .fuel => ("> FUEL", s)
  | ["clear", "linux.vmcoreinfo.raw"] => ("> clear ok", { s with ctx := clearRaw s.ctx })
  | ["get", "linux.vmcoreinfo.raw"] =>
    (match s.ctx.raw with | some r => "> get ok blob:" ++ hex r | none => "> get nodata -", s)
  | ["vraw"] =>
    let (st, b) := vraw s.ctx
    (s!"> vraw {showStatus st} " ++ (if st = .ok then hex b else "-"), s)
  | ["vline", h] =>
    let (st, b) := vline s.ctx (unhex h)
    (s!"> vline {showStatus st} " ++ (if st = .ok then hex b else "-"), s)
  | ["vsym", h] =>
    let (st, v) := vsym s.ctx (unhex h)
    (s!"> vsym {showStatus st} {v}", s)
  | ["tree", "linux.vmcoreinfo.lines"] =>
    if !s.ctx.inst.contains "lines" then ("> tree nodata", s)
    else (treeOut (s.ctx.lines.map fun (k, v) => hex k ++ "=str:" ++ hex v), s)
  | ["tree", key] =>
    if key.startsWith "linux.vmcoreinfo." then
      let tn := (key.drop 17).toString
      if !s.ctx.inst.contains tn then ("> tree nodata", s)
      else
        let pre := bytesOf (tn ++ ".")
        let es := s.ctx.typed.filterMap fun (k, t) =>
          if pre.isPrefixOf k && t.set then      -- an unset leaf is not listed
            some (hex (k.drop pre.length) ++ (if t.addr then "=addr:" else "=num:") ++ toString t.val)
          else none
        (treeOut es, s)
    else ("> bad-op", s)
  | ["setblob", key, h] =>
    match cpuKey key with
    | some (n, name) =>
      if name ≠ s.blobKey then ("> set nokey", s) else
      (match cpusUpdate s.cpus n (fun c => some (setBlob c (unhex h))) with
       | some cs => ("> set ok", { s with cpus := cs })
       | none => ("> set nokey", s))
    | none => ("> bad-op", s)
  | ["clear", key] =>
    match cpuKey key with
    | some (n, name) =>
      if name ≠ s.blobKey then ("> clear nokey", s) else
      (match cpusUpdate s.cpus n (fun c => some (clearBlob c)) with
       | some cs => ("> clear ok", { s with cpus := cs })
       | none => ("> clear nokey", s))
    | none => ("> bad-op", s)
  | ["poke", key, off, h] =>
    match cpuKey key with
    | some (n, name) =>
      (match (if name = s.blobKey then s.cpus[n]? else none) with
       | none => ("> poke nokey", s)
       | some c =>
         if !c.blobSet then ("> poke nodata", s) else
         (match cpusUpdate s.cpus n (fun c => poke c off.toNat! (unhex h)) with
          | some cs => ("> poke ok", { s with cpus := cs })
          | none => ("> poke range", s)))
    | none => ("> bad-op", s)
  | ["setnum", key, v] =>
    match cpuKey key with
    | some (n, name) =>
      (match regIndex s.cpus n name with
       | some i => let (st, cs) := cpusSetReg s.cpus n i v.toNat!; ("> set " ++ showStatus st, { s with cpus := cs })
       | none => ("> set nokey", s))
    | none => ("> bad-op", s)
  | ["get", key] =>
    match cpuKey key with
    | some (n, name) =>
      if name = s.blobKey then
        (match s.cpus[n]? with
         | some c => (if c.blobSet then "> get ok blob:" ++ hex c.blob else "> get nodata -", s)
         | none => ("> get nokey -", s))
      else
      (match regIndex s.cpus n name with
       | some i =>
         let (st, cs, r) := cpusGetReg s.cpus n i
         ((match r with | some n => s!"> get {showStatus st} num:{n}" | none => s!"> get {showStatus st} -"),
          { s with cpus := cs })
       | none => ("> get nokey -", s))
    | none => ("> bad-op", s)
  | _ => ("> bad-op", s)

partial def loop (h : IO.FS.Stream) (s : St) : IO Unit := do
  let line ← h.getLine
  if line.isEmpty then return ()
  let ws := (line.trimAscii.toString.splitOn " ").filter (· ≠ "")
  let (out, s') := step s ws
  let s'' := match ws with
    | ["open", _] => { s' with pendRegs := [], pendBe := false, pendBlob := [], pendXen := 0 }
    | ["new"] => { s' with pendRegs := s.pendRegs, pendBe := s.pendBe, pendBlob := s.pendBlob, pendXen := s.pendXen }
    | _ => s'
  if out ≠ "" then IO.println out
  loop h s''

def run (h : IO.FS.Stream) : IO Unit := loop h {}
end Driver.Derived
