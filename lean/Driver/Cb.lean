import Kdf.Model.Cb
/-! Line protocol for stream `cb`.

```
stack <n> ; <priv> <mask> ; <priv> <mask> ...   -- top first; mask bit i set = hook i overridden
inv <hook 0..6>
del <i>                                   -- addrxlat_ctx_del_cb of the layer at position i from the top
top <hook> <own>                          -- a call of the libraries themselves through the top record (Model.Cb.topCall)
```
The implementation id of the layer at height j above the default record (bottom layer j = 0) and hook h is `j*8+h`.
Output per `inv`: `> called <impl> <priv> <depth>` | `> base <h> <depth>` | `> diverge` | `> crash`.
-/
namespace Driver.Cb
open Kdf.Model.Cb

def hookOf (n : Nat) : Hook := Hook.all.getD n .getPage
def hookIdx (h : Hook) : Nat := Hook.all.idxOf h

def mkLayer (i priv mask : Nat) : Layer :=
  { priv := priv, impl := fun h => if mask.testBit (hookIdx h) then some (i*8 + hookIdx h) else none }

def showRes : Res → String
  | .called f p d => s!"> called {f} {p} {d}"
  | .base h _ => s!"> base {hookIdx h}"
  | .diverge => "> diverge"
  | .crash => "> crash"

partial def loop (h : IO.FS.Stream) (stack : List Layer) : IO Unit := do
  let line ← h.getLine
  if line.isEmpty then return ()
  let ws := (line.trimAscii.toString.splitOn " ").filter (· ≠ "")
  match ws with
  | "stack" :: _ :: rest =>
    -- rest = ";" p m ";" p m ...
    let nums := rest.filter (· ≠ ";") |>.map String.toNat!
    let rec build (j : Nat) : List Nat → List Layer
      | p :: m :: t => mkLayer (j-1) p m :: build (j-1) t
      | _ => []
    loop h (build (nums.length / 2) nums)
  | ["inv", n] =>
    IO.println (showRes (invoke (stack.length + 64) stack (hookOf n.toNat!)))
    loop h stack
  | ["top", n, own] =>
    -- a call the libraries make themselves through the top record (`own`: position of the caller's own record)
    IO.println (showRes (topCall (stack.length + 64) stack (hookOf n.toNat!) own.toNat!))
    loop h stack
  | ["del", i] =>
    IO.println "> del"
    loop h (delCb stack i.toNat!)
  | _ => IO.println "> bad-op"; loop h stack

def run (h : IO.FS.Stream) : IO Unit := loop h []
end Driver.Cb
