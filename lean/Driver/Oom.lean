import Kdf.Model.Oom
/-! Line protocol for stream `oom` (C18).

```
new <g> <x> <n>              kdump_new with g global attributes, x translation attributes, failing allocation n (0 = none)
clone <xl 0|1> <k> <m> <n>   kdump_clone(flags = xl ? KDUMP_CLONE_XLAT : 0), k per-context slots, m attribute-clone allocations
rgn <inc> <n0> <ok 0|1>      add_pfn_region on a map holding n0 regions
slot <name> <c> <n>          per_ctx_alloc on an object with c contexts
pgsz <name> <c> <m> <n>      kdump_set_attr("arch.page_size") on an open LKCD dump: c contexts (old slot buffers = blocks 1..c),
                             page cache of m blocks (old cache = blocks c+1..c+m); blocks that existed before the call print as `fp`
pmap <name> <g> <n>          kdump_get_attr("memory.pagemap") building the map with g growth steps of the region array
```
Output per case: `> <name> n=<n> ret=<obj|null> inj=<0|1> cnt=<attempts> locks=<held> leak=<blocks> end=<done|undefined>[ refs=<shared>/<dict>/<xlat>]`
followed by `> T <canonical trace>`.
-/
namespace Driver.Oom
open Kdf.Model.Oom

def report (name : String) (n total : Nat) (r : Bool × St) (refs : Bool) : IO Unit := do
  let s := r.2
  let inj := if s.failAt ≠ 0 ∧ s.failAt ≤ s.cnt then 1 else 0
  let leak : Int := if r.1 then (s.live.length : Int) - total else s.live.length
  let refsTxt := if refs then s!" refs={(s.shRef : Int) - 1}/{(s.dictRef : Int) - 1}/{(s.xlatRef : Int) - 1}" else ""
  IO.println s!"> {name} n={n} ret={if r.1 then "obj" else "null"} inj={inj} cnt={s.cnt} locks={s.rd + s.wr} leak={leak} end={if s.bad then "undefined" else "done"}{refsTxt}"
  IO.println ("> T " ++ " ".intercalate (canon s.trace))

/-! trace with the blocks that existed before the call (ids ≤ base) printed as `fp`, the others
renumbered from 1; every maximal run of frees sorted (numbered blocks first, by id) -/

/-- sort key of a freed block: blocks that existed before the call sort after all numbered ones -/
def relKey (base i : Nat) : Nat × Nat := if i ≤ base then (1, 0) else (0, i)

def relLe (base i j : Nat) : Bool :=
  let a := relKey base i; let b := relKey base j
  a.1 < b.1 || (a.1 == b.1 && a.2 ≤ b.2)

def relInsert (base i : Nat) : List Nat → List Nat
  | [] => [i]
  | j :: js => if relLe base i j then i :: j :: js else j :: relInsert base i js

def canonRelGo (base : Nat) : List Ev → List Nat → List String
  | [], burst => burst.map (fun i => if i ≤ base then "fp" else s!"f{i - base}")
  | .f i :: es, burst => canonRelGo base es (relInsert base i burst)
  | e :: es, burst =>
    let txt := match e with
      | .a i => s!"a{i - base}" | .F i => s!"F{i - base}" | .r i => s!"r{i - base}" | e => e.show
    burst.map (fun i => if i ≤ base then "fp" else s!"f{i - base}") ++ (txt :: canonRelGo base es [])

def canonRel (base : Nat) (tr : List Ev) : List String := canonRelGo base tr.reverse []

def reportRel (name : String) (n base : Nat) (ok : Bool) (okTxt failTxt : String) (leak : Int) (s : St) : IO Unit := do
  let inj := if s.failAt ≠ 0 ∧ s.failAt ≤ s.cnt then 1 else 0
  IO.println s!"> {name} n={n} ret={if ok then okTxt else failTxt} inj={inj} cnt={s.cnt - base} locks={s.rd + s.wr + s.mtx} leak={leak} end={if s.bad then "undefined" else "done"}"
  IO.println ("> T " ++ " ".intercalate (canonRel base s.trace))

partial def loop (h : IO.FS.Stream) : IO Unit := do
  let line ← h.getLine
  if line.isEmpty then return ()
  let ws := (line.trimAscii.toString.splitOn " ").filter (· ≠ "")
  match ws with
  | ["new", g, x, n] =>
    report "new" n.toNat! (kdumpNewTotal g.toNat! x.toNat!) (kdumpNew Fix.all g.toNat! x.toNat! (St.init n.toNat!)) false
  | ["clone", xl, k, m, n] =>
    let f := xl == "1"
    report s!"clone{if f then "x" else "0"}s{k}" n.toNat! (kdumpCloneTotal f k.toNat! m.toNat!)
      (kdumpClone Fix.all f k.toNat! m.toNat! (St.init n.toNat!)) true
  | ["rgn", inc, n0, ok] =>
    let mp : PfnMap := { regions := List.range n0.toNat!, cap := (n0.toNat! + inc.toNat! - 1) / inc.toNat! * inc.toNat! }
    let allocs := if n0.toNat! % inc.toNat! = 0 then 1 else 0
    match addRegion inc.toNat! mp n0.toNat! (ok == "1") with
    | (some mp', _) => IO.println s!"> rgn ok n={mp'.regions.length} allocs={allocs} kept={mp'.regions.take n0.toNat! == mp.regions}"
    | (none, mp') => IO.println s!"> rgn null n={mp'.regions.length} allocs={allocs} kept={mp'.regions == mp.regions}"
  | ["slot", name, c, n] =>
    let r := perCtxAlloc c.toNat! (St.init n.toNat!)
    let held := match r.1 with | some got => got.length | none => 0
    reportRel name n.toNat! 0 r.1.isSome "obj" "null" ((r.2.live.length : Int) - held) r.2
  | ["pgsz", name, c, m, n] =>
    let c := c.toNat!; let m := m.toNat!; let n := n.toNat!
    let base := c + m
    let o : PgObj := { cbuf := some ((List.range c).map (· + 1)).reverse, cache := ((List.range m).map (· + c + 1)).reverse }
    let s0 : St := { cnt := base, live := ((List.range base).map (· + 1)).reverse, failAt := if n = 0 then 0 else base + n }
    let r := setPageSize {} c m o s0
    let owned := r.2.1.bufs.length + r.2.1.cache.length
    let dangling := (r.2.1.bufs ++ r.2.1.cache).filter (fun b => !(r.2.2.live.contains b))
    let s := if dangling.isEmpty then r.2.2 else { r.2.2 with bad := true }
    reportRel name n base r.1 "ok" "system" ((r.2.2.live.length : Int) - owned) s
  | ["nfiles", name, per, k, n] =>
    let r := numFilesGrow per.toNat! k.toNat! (St.init n.toNat!)
    -- the slots belong to the object (freed with it): the call's ledger is what the object does not name
    reportRel name n.toNat! 0 r.1 "ok" "system" (if r.1 then 0 else r.2.live.length) r.2
  | ["pmap", name, g, n] =>
    let r := pagemapGet {} g.toNat! (St.init n.toNat!)
    reportRel name n.toNat! 0 r.1 "ok" "system" r.2.live.length r.2
  | _ => IO.println "> bad-op"
  loop h

def run (h : IO.FS.Stream) : IO Unit := loop h
end Driver.Oom
