import Kdf.Model.Oom
/-! Line protocol for stream `oom` (C18).

```
new <g> <x> <n>              kdump_new with g global attributes, x translation attributes, failing allocation n (0 = none)
clone <xl 0|1> <k> <m> <n>   kdump_clone(flags = xl ? KDUMP_CLONE_XLAT : 0), k per-context slots, m attribute-clone allocations
rgn <inc> <n0> <ok 0|1>      add_pfn_region on a map holding n0 regions
```
Output per case: `> <name> n=<n> ret=<obj|null> inj=<0|1> cnt=<attempts> locks=<held> leak=<blocks> end=<done|undefined>[ refs=<shared>/<dict>/<xlat>]`
followed by `> T <canonical trace>`.
-/
namespace Driver.Oom
open Kdf.Model.Oom

def report (name : String) (n total : Nat) (r : Bool × St) (refs : Bool) : IO Unit := do
  let s := r.2
  let inj := if s.failAt ≠ 0 ∧ s.failAt ≤ s.cnt then 1 else 0
  let leak : Int := if r.1 then (s.live.length : Int) - total else s.live.length
  let refsTxt := if refs then s!" refs={(s.shRef : Int) - 1}/{(s.dictRef : Int) - 1}/{(s.xlatRef : Int) - 1}" else ""
  IO.println s!"> {name} n={n} ret={if r.1 then "obj" else "null"} inj={inj} cnt={s.cnt} locks={s.rd + s.wr} leak={leak} end={if s.bad then "undefined" else "done"}{refsTxt}"
  IO.println ("> T " ++ " ".intercalate (canon s.trace))

partial def loop (h : IO.FS.Stream) : IO Unit := do
  let line ← h.getLine
  if line.isEmpty then return ()
  let ws := (line.trimAscii.toString.splitOn " ").filter (· ≠ "")
  match ws with
  | ["new", g, x, n] =>
    report "new" n.toNat! (kdumpNewTotal g.toNat! x.toNat!) (kdumpNew Fix.all g.toNat! x.toNat! (St.init n.toNat!)) false
  | ["clone", xl, k, m, n] =>
    let f := xl == "1"
    report s!"clone{if f then "x" else "0"}s{k}" n.toNat! (kdumpCloneTotal f k.toNat! m.toNat!)
      (kdumpClone Fix.all f k.toNat! m.toNat! (St.init n.toNat!)) true
  | ["rgn", inc, n0, ok] =>
    let mp : PfnMap := { regions := List.range n0.toNat!, cap := (n0.toNat! + inc.toNat! - 1) / inc.toNat! * inc.toNat! }
    let allocs := if n0.toNat! % inc.toNat! = 0 then 1 else 0
    match addRegion inc.toNat! mp n0.toNat! (ok == "1") with
    | (some mp', _) => IO.println s!"> rgn ok n={mp'.regions.length} allocs={allocs} kept={mp'.regions.take n0.toNat! == mp.regions}"
    | (none, mp') => IO.println s!"> rgn null n={mp'.regions.length} allocs={allocs} kept={mp'.regions == mp.regions}"
  | _ => IO.println "> bad-op"
  loop h

def run (h : IO.FS.Stream) : IO Unit := loop h
end Driver.Oom
