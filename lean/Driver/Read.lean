import Kdf.Model.Read
/-! Line protocol for stream `read` (C12).

The page oracle is given explicitly (it was discovered by single-page reads of
the implementation, see tools/props/c12.py):
```
open <path> <ps>                 reset; page size (0: the dump opens without a known page size)
setps <ps>                   ->  > setps ok      the page size becomes known (arch.page_size is set)
pg <as> <pageaddr> <hex>         page of address space as at pageaddr has these bytes
miss <as> <status>               status of every other page of address space as
read <as> <addr> <len>       ->  > <status> <len> <fnv of delivered bytes>
str <as> <addr>              ->  > <status> <strlen> <fnv>
```
-/
namespace Driver.Read
open Kdf.Model.Read

def fnv (data : List Nat) : Nat :=
  data.foldl (fun h c => ((h ^^^ c) * 0x100000001b3) % 2^64) 0xcbf29ce484222325

structure St where
  ps : Nat := 4096
  pages : List (Nat × Nat × List Nat) := []
  miss : Nat → Status := fun _ => .nodata

def statusOf : String → Status
  | "ok" => .ok | "system" => .system | "notimpl" => .notimpl | "nodata" => .nodata
  | "corrupt" => .corrupt | "invalid" => .invalid | "nokey" => .nokey | "eof" => .eof
  | "busy" => .busy | _ => .addrxlat

def showStatus : Status → String
  | .ok => "ok" | .system => "system" | .notimpl => "notimpl" | .nodata => "nodata"
  | .corrupt => "corrupt" | .invalid => "invalid" | .nokey => "nokey" | .eof => "eof"
  | .busy => "busy" | .addrxlat => "addrxlat"

def hexVal (c : Char) : Nat :=
  if c.isDigit then c.toNat - '0'.toNat else c.toNat - 'a'.toNat + 10

def unhex : List Char → List Nat
  | a :: b :: t => (hexVal a * 16 + hexVal b) :: unhex t
  | _ => []

def oracle (s : St) : Oracle := fun as pa =>
  match s.pages.find? (fun (a, p, _) => a = as ∧ p = pa) with
  | some (_, _, d) => .ok d
  | none => .error (s.miss as)

partial def loop (h : IO.FS.Stream) (s : St) : IO Unit := do
  let line ← h.getLine
  if line.isEmpty then return ()
  let ws := (line.trimAscii.toString.splitOn " ").filter (· ≠ "")
  match ws with
  | ["open", _, ps] => loop h { ps := ps.toNat! }
  | ["pg", as, pa, hex] => loop h { s with pages := (as.toNat!, pa.toNat!, unhex hex.toList) :: s.pages }
  | ["miss", as, st] =>
    let a := as.toNat!; let v := statusOf st; let old := s.miss
    loop h { s with miss := fun x => if x = a then v else old x }
  | ["read", as, addr, len] =>
    let (st, out) := readApi s.ps (oracle s) as.toNat! addr.toNat! len.toNat!
    IO.println s!"> {showStatus st} {out.length} {fnv out}"
    loop h s
  | ["str", as, addr] =>
    match readStringApi s.ps (oracle s) as.toNat! addr.toNat! (fun _ => true) 100000 with
    | (st, some str) => IO.println s!"> {showStatus st} {str.length} {fnv str}"
    | (st, none) => IO.println s!"> {showStatus st} - -"
    loop h s
  | ["setps", ps] =>
    IO.println "> setps ok"
    loop h { s with ps := ps.toNat! }
  | ["kphys_off", _] => loop h s
  | ["cache", _] => loop h s
  | _ => IO.println "> bad-op"; loop h s

def run (h : IO.FS.Stream) : IO Unit := loop h {}
end Driver.Read
