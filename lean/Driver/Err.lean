import Kdf.Model.Err
/-! Line protocol for stream `err` (C16).
```
init <bufsz>
add <hex message> <allocOk 0|1>
addbad <allocOk 0|1>          the format string is invalid
clear
```
Output after each: `> <hex of the error string> <null|buf:<off>|dyn:<off>> dyn=<0|1>[ OOB]`
-/
namespace Driver.Err
open Kdf.Model.Err

def hexVal (c : Char) : Nat :=
  if c.isDigit then c.toNat - '0'.toNat else c.toNat - 'a'.toNat + 10
def unhex : List Char → List Nat
  | a :: b :: t => (hexVal a * 16 + hexVal b) :: unhex t
  | _ => []
def hexDigit (n : Nat) : Char := if n < 10 then Char.ofNat (48 + n) else Char.ofNat (87 + n)
def toHex (l : List Nat) : String := String.ofList (l.flatMap fun b => [hexDigit (b / 16), hexDigit (b % 16)])

def showPos : Pos → String
  | .null => "null" | .inBuf o => s!"buf:{o}" | .inDyn o => s!"dyn:{o}"

def showSt (e : ErrBuf) : String :=
  s!"> {toHex (text e)}- {showPos e.str} dyn={if e.dyn.isSome then 1 else 0}" ++ (if e.oob then " OOB" else "")

partial def loop (h : IO.FS.Stream) (e : ErrBuf) : IO Unit := do
  let line ← h.getLine
  if line.isEmpty then return ()
  let ws := (line.trimAscii.toString.splitOn " ").filter (· ≠ "")
  match ws with
  | ["init", n] => let e' := init n.toNat!; IO.println (showSt e'); loop h e'
  | ["add", hex, ok] =>
    let e' := vadd e (unhex hex.toList) (ok == "1"); IO.println (showSt e'); loop h e'
  | ["addbad", ok] =>
    -- err_vadd substitutes the text "(bad format string)" when vsnprintf rejects the format
    let e' := vadd e ("(bad format string)".toList.map Char.toNat) (ok == "1"); IO.println (showSt e'); loop h e'
  | ["add", ok] =>
    let e' := vadd e [] (ok == "1"); IO.println (showSt e'); loop h e'
  | ["clear"] => let e' := clear e; IO.println (showSt e'); loop h e'
  | _ => IO.println "> bad-op"; loop h e

def run (h : IO.FS.Stream) : IO Unit := loop h (init 64)
end Driver.Err
