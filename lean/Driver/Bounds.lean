import Kdf.Model.Bounds
import Kdf.Model.Map
/-! Line protocol for stream `bounds` (C03): the parsing steps whose indices come
from the file, run on generated field values.

```
rle <cap> <hex src>                      > rle ok <n> <hex out> | > rle err | > rle OOB
notes <be 0|1> <hex>                     > notes <k> <type:nameoff:namesz:descoff:descsz>...
ddhdr <block_size (signed)> <bitmap_blocks> <max_mapnr>     > ddhdr accept | > ddhdr reject
ddbmp <ps> <sub_hdr_size (signed)> <bitmap_blocks> <max_pfn>
                                         > ddbmp corrupt | > ddbmp req <off> <len> <descoff> <max_pfn> <memoff>
flat <file size> <hex of the file from offset 4096>
                                         > flat ok <n> <pos:size:flatoff>... map <endoff:meth>... | > flat corrupt | > flat readerr
chunk <pos> <len>   (on the map of the last `flat`)         > chunk direct <filepos> | > chunk copy
cpusz <total> <cpus>                     > cpusz corrupt | > cpusz <q>
pgshift <page_size>                      > pgshift corrupt | > pgshift <shift>
```
-/
namespace Driver.Bounds
open Kdf.Model.Bounds

def hexVal (c : Char) : Nat :=
  if c.isDigit then c.toNat - '0'.toNat else c.toNat - 'a'.toNat + 10
def unhex : List Char → List Nat
  | a :: b :: t => (hexVal a * 16 + hexVal b) :: unhex t
  | _ => []
def hexDigit (n : Nat) : Char := if n < 10 then Char.ofNat (48 + n) else Char.ofNat (87 + n)
def toHex (l : List Nat) : String := String.ofList (l.flatMap fun b => [hexDigit (b / 16), hexDigit (b % 16)])

def word (bytes : Array Nat) (be : Bool) (p n : Nat) : Nat :=
  (List.range n).foldl (fun acc k =>
    let b := bytes.getD (p + (if be then k else n - 1 - k)) 0
    acc * 256 + b) 0

def toSigned64 (v : Nat) : Int := if v ≥ 2^63 then (v : Int) - (2^64 : Int) else v

structure St where
  ranges : List (Nat × Int) := []
  offs : List Int := []

def showInt (i : Int) : String := toString i

partial def loop (h : IO.FS.Stream) (s : St) : IO Unit := do
  let line ← h.getLine
  if line.isEmpty then return ()
  let ws := (line.trimAscii.toString.splitOn " ").filter (· ≠ "")
  match ws with
  | "rle" :: cap :: rest =>
    let src := unhex (rest.headD "").toList
    match rle src cap.toNat! with
    | .ok n out => IO.println s!"> rle ok {n} {toHex out}"
    | .err => IO.println "> rle err"
    | .oob => IO.println "> rle OOB"
    | .fuel => IO.println "> rle FUEL"
    loop h s
  | "notes" :: be :: rest =>
    let bytes := (unhex (rest.headD "").toList).toArray
    match notes (fun p => word bytes (be == "1") p 4) bytes.size with
    | .done ns =>
      IO.println (s!"> notes {ns.length}" ++ String.join (ns.map fun n => s!" {n.type}:{n.nameOff}:{n.namesz}:{n.descOff}:{n.descsz}"))
    | .oob => IO.println "> notes OOB"
    | .fuel => IO.println "> notes FUEL"
    loop h s
  | ["ddhdr", bs, blocks, mapnr] =>
    -- try_header = the sanity checks, then set_page_size (power-of-two test of page_size_pre_hook)
    let ok := tryHeader bs.toInt! blocks.toNat! mapnr.toNat! &&
      (match pageShift bs.toInt!.toNat with | .shift _ => true | _ => false)
    IO.println (if ok then "> ddhdr accept" else "> ddhdr reject")
    loop h s
  | ["ddbmp", ps, sub, blocks, maxpfn] =>
    match readBitmap ps.toNat! sub.toInt! blocks.toNat! maxpfn.toNat! with
    | .corrupt => IO.println "> ddbmp corrupt"
    | .ovf => IO.println "> ddbmp OVERFLOW"
    | .req r => IO.println s!"> ddbmp req {r.off} {r.len} {r.descoff} {r.maxPfn} {r.memOff}"
    loop h s
  | "flat" :: fsz :: rest =>
    let bytes := (unhex (rest.headD "").toList).toArray
    let fsz := fsz.toNat!
    let bound := max ((fsz + 4095) / 4096 * 4096) 4096
    -- the file has `fsz` bytes; the rest of its last block reads as zeroes
    let fbytes : Array Nat := (bytes.toList.take (fsz - 4096)).toArray
    -- a read that reaches into a block wholly behind the end of the file fails (KDUMP_ERR_EOF,
    -- or an offset the file system refuses); the rest of the last block reads as zeroes
    let rd : Nat → Option (Int × Int) := fun p =>
      if p + 16 > bound ∨ p < 4096 then none
      else some (toSigned64 (word fbytes true (p - 4096) 8), toSigned64 (word fbytes true (p - 4096 + 8) 8))
    match flatScan rd bound with
    | .ok segs =>
      let m := (segs.zipIdx).foldl (fun (m : Kdf.Model.Map.Map) (sg, i) =>
        (Kdf.Model.Map.mapSet m sg.pos ⟨sg.size - 1, (i : Int)⟩ true).2) []
      let rs := m.map fun r => (r.endoff, r.meth)
      IO.println (s!"> flat ok {segs.length}" ++ String.join (segs.map fun sg => s!" {sg.pos}:{sg.size}:{showInt sg.flatoff}")
        ++ " map" ++ String.join (rs.map fun r => s!" {r.1}:{showInt r.2}"))
      loop h { ranges := rs, offs := segs.map (·.flatoff) }
    | .corrupt => IO.println "> flat corrupt"; loop h {}
    | .readerr => IO.println "> flat readerr"; loop h {}
    | .fuel => IO.println "> flat FUEL"; loop h {}
  | ["chunk", pos, len] =>
    match chunkIdx s.ranges s.offs pos.toNat! len.toNat! with
    | .direct p => IO.println s!"> chunk direct {showInt p}"
    | .copy => IO.println "> chunk copy"
    | .oob => IO.println "> chunk OOB"
    loop h s
  | ["cpusz", total, cpus] =>
    match cpuStateSz total.toNat! cpus.toNat! with
    | .corrupt => IO.println "> cpusz corrupt"
    | .divzero => IO.println "> cpusz DIVZERO"
    | .val q => IO.println s!"> cpusz {q}"
    loop h s
  | ["pgshift", ps] =>
    match pageShift ps.toNat! with
    | .corrupt => IO.println "> pgshift corrupt"
    | .badshift => IO.println "> pgshift BADSHIFT"
    | .shift k => IO.println s!"> pgshift {k}"
    loop h s
  | _ => IO.println "> bad-op"; loop h s

def run (h : IO.FS.Stream) : IO Unit := loop h {}
end Driver.Bounds
